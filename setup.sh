#!/bin/bash
# Build the overlay venv: /venv's packages (torch, numpy, kappadata editable -> /repo) + crosshair-tool
# from the offline wheelhouse. Idempotent; no network.
set -e
cd "$(dirname "$0")"
if [ ! -x .venv/bin/crosshair ] || ! .venv/bin/python -c "import crosshair, z3" 2>/dev/null; then
  rm -rf .venv
  /venv/bin/python -m venv .venv
  SP=$(.venv/bin/python -c "import sysconfig; print(sysconfig.get_paths()['purelib'])")
  echo "import site; site.addsitedir('/venv/lib/python3.12/site-packages')" > "$SP/_venv_overlay.pth"
  PIP_NO_INDEX=1 .venv/bin/pip install -q --no-index --find-links /opt/veriftools/wheels crosshair-tool >/dev/null
fi
.venv/bin/python -c "import crosshair, z3, kappadata; assert kappadata.__file__.startswith('/repo/'), kappadata.__file__"
