#!/usr/bin/env python3
"""Regenerate the checks / not_applicable sections of MANIFEST.json from harness metadata."""
import json, importlib, sys, os
sys.path.insert(0, os.path.dirname(os.path.abspath(__file__)))
props = [json.loads(l) for l in open("properties.jsonl")]
NA = json.load(open("not_applicable.json"))
m = json.load(open("MANIFEST.json"))
checks, na, served = [], [], []
for p in props:
    pid = p["id"]
    if os.path.exists(f"harness/{pid.lower()}.py") and pid not in NA:
        src = open(f"harness/{pid.lower()}.py").read()
        meta = {}
        # metadata is read without importing torch: MANIFEST_* literals at the top of the harness
        import ast
        for node in ast.parse(src).body:
            if isinstance(node, ast.Assign) and len(node.targets) == 1 and isinstance(node.targets[0], ast.Name) and node.targets[0].id.startswith("MANIFEST_"):
                meta[node.targets[0].id] = ast.literal_eval(node.value)
        checks.append({
            "property_id": pid,
            "quick_cmd": f"./check {pid} quick",
            "thorough_cmd": f"./check {pid} thorough",
            "evidence_file": f"evidence/{pid}.json",
            "replay_cmd_template": f"./check {pid} --replay {{path}}",
            "engine": "E1-crosshair",
            "level_claimed": {"category": "other", "text": meta.get("MANIFEST_LEVEL", ""), "design_ref": f"DESIGN.md sections 0, 3 ({pid}) and 8"},
            "level_note": meta.get("MANIFEST_NOTE", ""),
            "technique": meta.get("MANIFEST_TECHNIQUE", "bounded symbolic execution of the real code (CrossHair/z3), solver verdict per condition"),
        })
        served.append(pid)
    else:
        na.append({"property_id": pid, "reason": NA.get(pid, "check not built yet")})
m["checks"] = checks
m["not_applicable"] = na
m["engines"][0]["serves_properties"] = served
json.dump(m, open("MANIFEST.json", "w"), indent=1)
print("claimed:", served, "n/a:", [x["property_id"] for x in na])
