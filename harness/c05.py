"""C05 - interleaved scheduler: side passes run exactly when due, whole, and unmixed."""
from vf.common import fail
from vf.engine import Cond
from harness import ilv
from harness.ilv import body_whole, body_whole_geo, body_epoch_step  # noqa: F401
from harness.c04 import whole_geo_cond, step_cond, geometries, VMAX
import kappadata.samplers.interleaved_sampler as M

MANIFEST_LEVEL = "Solver-decided equivalence of the real scheduler with the closed-form 'due iff interval reached or crossed' oracle for every non-empty combination of interval kinds on one config, 1-3 configs, per-config batch sizes, zero budget, plus index resolution through _InterleavedConcatDataset with unbounded dataset sizes and collator dispatch. Interval lengths symbolic in whole runs, enumerated in the inductive epoch step."
MANIFEST_NOTE = 'Trusted: CrossHair/z3, probe samplers/collators, oracle in harness/ilv.py. Outside: worker processes of a real DataLoader, more than 3 configs.'
MANIFEST_TECHNIQUE = "bounded symbolic execution of the real code (CrossHair on z3): solver verdict over all values within the bounds, per enumerated configuration; counterexamples replayed concretely"
PROPERTY = "C05"
ENCODED = ilv.ENCODED
STUBS = [
    "MainProbe / SideProbe samplers (symbolic lengths, logged set_epoch), DS data sources returning ('item', dataset tag, index)",
    "TagCollator per dataset returning ('collated', tag, items) so collator dispatch is observable",
]
ASSUMPTIONS = [
    "oracle = closed form over the update number t: config due iff one of its intervals was reached or crossed by update t",
    "the dataloader-level guarantee is established on the batch-sampler stream, dataset[idx] and collator(batch) the loader would call (single process)",
]
OUTSIDE = ["real DataLoader worker processes (prefetching in other OS processes cannot be executed symbolically)",
           "more than 3 configs; config sampler sizes above the per-condition bound"]
BOUNDS = {
    "quick": "geometry enumerated n<=5 (sampled); one config with every non-empty combination of interval kinds (ene<=3, enu<=4, ens<=6 symbolic), m<=2, per-config batch size in {None,1,2}; "
             "two/three configs on sampled geometries; inductive epoch step with configs (interval lengths enumerated, E<=1000, budget unbounded); index resolution with unbounded dataset sizes",
    "thorough": "12 sampled geometries n<=6 for whole runs (all 7 interval-kind masks, ens<=5, 1..3 configs on 8 of them); inductive step on 32 sampled geometries n<=7 with 10 interval-length combinations each",
}

MASKS = ["e", "u", "s", "eu", "es", "us", "eus"]


def body_resolve(cfg, s0, s1, s2, g):
    """_InterleavedConcatDataset[g] for arbitrary dataset sizes: cfg = number of datasets (2..3)"""
    k = cfg
    sizes = [s0, s1, s2][:k]
    try:
        ds = M._InterleavedConcatDataset([ilv.DS(sz, tag) for tag, sz in enumerate(sizes)])
        total = sum(sizes)
        if not (-total <= g < total):
            return True
        got = ds[g]
    except Exception as e:
        return fail("exception " + type(e).__name__)
    gg = g if g >= 0 else g + total
    cur = 0
    for tag, sz in enumerate(sizes):
        if gg < cur + sz:
            return got == (tag, ("item", tag, gg - cur)) or fail("wrong (dataset, sample)")
        cur += sz
    return fail("unreachable")


def body_collate(cfg, d0, d1, d2):
    """_InterleavedCollator: dispatch by dataset index, mixed batches rejected. cfg = batch length"""
    k = cfg
    idxs = [d0, d1, d2][:k]
    col = M._InterleavedCollator([ilv.TagCollator(t) for t in range(3)])
    data = [(d, ("item", d, j)) for j, d in enumerate(idxs)]
    mixed = any(d != idxs[0] for d in idxs)
    try:
        out = col(data)
    except AssertionError:
        return mixed or fail("uniform batch rejected")
    except Exception as e:
        return fail("exception " + type(e).__name__)
    if mixed:
        return fail("mixed batch accepted")
    return out == ("collated", idxs[0], [("item", d, j) for j, d in enumerate(idxs)]) or fail("wrong collator")


def conditions(tier, rng):
    H = "harness.c05"
    q = tier == "quick"
    to = 600 if q else 1800
    conds = []
    geos = geometries(5 if q else 6)
    ens_max = 6 if q else 9
    m_max = 2 if q else 3
    # one config, every non-empty combination of interval kinds (narrow symbolic ranges: the
    # inductive step below carries the wide ranges)
    WV = {"epochs": 2, "updates": 5, "samples": 8} if q else {"epochs": 3, "updates": 7, "samples": 12}
    sub = rng.sample(geos, 4) if q else rng.sample(geos, 12)
    for g in sub:
        for kind in ("epochs", "updates", "samples"):
            for mk in MASKS:
                wide = len(mk) == 1
                conds.append(whole_geo_cond(
                    H, g, kind, [mk], WV[kind], mk in ("s", "eus"), to, m_max=2, cbs_max=1 if not wide else 2, ex_max=0 if not wide else 1,
                    ene_max=3 if wide else 2, enu_max=4 if wide else 2, ens_max=(6 if wide else 3) if q else (9 if wide else 5)))
    # several configs (offset arithmetic, config order)
    sub2 = rng.sample(geos, 2) if q else rng.sample(geos, 8)
    for g in sub2:
        for kind in ("epochs", "updates", "samples"):
            conds.append(whole_geo_cond(H, g, kind, ["eu", "s"], WV[kind], True, to, m_max=2, cbs_max=0, ex_max=1, ene_max=2, enu_max=2, ens_max=3))
            conds.append(whole_geo_cond(H, g, kind, ["u", "e", "s"], min(WV[kind], 6), True, to, m_max=1, cbs_max=0, ex_max=1, ene_max=2, enu_max=2, ens_max=3))
    # inductive epoch step with configs, E and budget unbounded. Interval lengths are enumerated
    # here (concrete divisors keep the arithmetic over the unbounded counters linear); the whole-run
    # conditions above keep them symbolic.
    sgeos = geometries(5 if q else 7)
    singles = [f"e{v}" for v in (1, 2, 3)] + [f"u{v}" for v in (1, 2, 3, 4)] + [f"s{v}" for v in range(1, 10)]
    multis = [f"e{a}u{c}" for a in (1, 2) for c in (2, 3)] + [f"e{a}s{c}" for a in (1, 3) for c in (2, 5, 7)] + \
             [f"u{a}s{c}" for a in (2, 3) for c in (3, 4, 7)] + [f"e{a}u{c}s{d}" for a in (2,) for c in (2, 3) for d in (3, 5)]
    for g in (rng.sample(sgeos, 16) if q else rng.sample(sgeos, 32)):
        for kind in ("epochs", "updates", "samples"):
            for mk in (rng.sample(singles, 4) + rng.sample(multis, 3) if q else rng.sample(singles, 6) + rng.sample(multis, 4)):
                conds.append(step_cond(H, g, kind, [mk], to, m_max=2, cbs_max=2))
    small = [g for g in sgeos if ilv.geometry(g[0], g[1], g[2], None if g[3] == 0 else g[3] * g[1])[1] <= 3]
    for g in (rng.sample(small, 4) if q else rng.sample(small, 40)):
        for kind in ("epochs", "updates", "samples"):
            conds.append(step_cond(H, g, kind, [rng.choice(multis), rng.choice(singles)], to, m_max=1, cbs_max=0, ex_max=1))
    # index resolution and collator dispatch
    for k in (2, 3):
        conds.append(Cond(name=f"resolve[{k} datasets]", harness=H, body="body_resolve", cfg=k,
                          params=[("s0", "int"), ("s1", "int"), ("s2", "int"), ("g", "int")],
                          pre=["1 <= s0", "1 <= s1", "1 <= s2"] + (["s2 == 1"] if k == 2 else []), timeout=to, group="index-resolution",
                          bounds="dataset sizes unbounded, global index in [-total,total)"))
    for k in (1, 2, 3):
        conds.append(Cond(name=f"collate[batch of {k}]", harness=H, body="body_collate", cfg=k,
                          params=[("d0", "int"), ("d1", "int"), ("d2", "int")],
                          pre=["0 <= d0 <= 2", "0 <= d1 <= 2", "0 <= d2 <= 2"], timeout=to, group="collator-dispatch",
                          bounds="3 datasets, batch of <=3 with symbolic dataset indices"))
    return conds
