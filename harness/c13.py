"""C13 - balanced, semi-supervised and weighted samplers compose epochs as promised."""
import importlib

from vf.common import fail, patched
from vf.engine import Cond
from harness.scripttorch import ScriptTorch, LT, is_perm, distinct_in, ScriptExhausted, ShimMiss
from harness.c12 import ClassDS, LenDS, CB_MOD, WS_MOD, cb_draw_sizes, split_draws, make_cb, CB_LAYOUTS_Q, CB_LAYOUTS_T

SS_MOD = importlib.import_module("kappadata.samplers.semi_sampler")

MANIFEST_LEVEL = "The real __iter__/__len__/effective_length of ClassBalancedSampler, SemiSampler and WeightedSampler run on the scripted torch stub (symbolic permutation / multinomial draws assumed to satisfy the call's contract, symbolic seed and epoch, enumerated class layouts, chunk sizes, length modes and world sizes); the solver decides exact per-class counts and even reuse, the strict labeled/unlabeled alternation with whole-pool exhaustion before any repeat, equal stream lengths on all ranks matching the length mode, absence of repeats in the weighted draw and validity of every index."
MANIFEST_NOTE = "Trusted: CrossHair/z3; ScriptTorch contract (randperm is a permutation, multinomial without replacement yields distinct indices, equal keys give equal draws); constructors run on the real torch with concrete layouts. Statistical properties of the real PRNGs are outside."
MANIFEST_TECHNIQUE = "bounded symbolic execution of the real samplers (CrossHair on z3) over a contract-only torch stub with symbolic draws"
PROPERTY = "C13"
ENCODED = [
    "kappadata.samplers.class_balanced_sampler:ClassBalancedSampler.__init__",
    "kappadata.samplers.class_balanced_sampler:ClassBalancedSampler.__iter__",
    "kappadata.samplers.class_balanced_sampler:ClassBalancedSampler.effective_length",
    "kappadata.samplers.semi_sampler:SemiSampler.__init__",
    "kappadata.samplers.semi_sampler:SemiSampler.effective_length",
    "kappadata.samplers.semi_sampler:SemiSampler.__len__",
    "kappadata.samplers.semi_sampler:SemiSampler.__iter__",
    "kappadata.samplers.weighted_sampler:WeightedSampler.__iter__",
    "kappadata.samplers.weighted_sampler:WeightedSampler.effective_length",
]
STUBS = ["ScriptTorch / LT (harness/scripttorch.py)", "ClassDS with a concrete label layout (-1 = unlabeled)"]
ASSUMPTIONS = ["draws satisfy the contract of the torch call that produced them", "random_() seeds derived from rank / epoch are arbitrary integers (uninterpreted function of the key)"]
OUTSIDE = ["statistical properties of the real PRNGs", "that differently keyed generators really produce different streams", "layouts above the bound"]
BOUNDS = {"quick": "class-balanced: layouts up to 4 samples, samples_per_class<=2 (default None too), shuffle on/off; semi: pools up to 3 labeled / 3 unlabeled, num_labeled/num_unlabeled<=2, 3 length modes, W<=2; weighted: n<=4",
          "thorough": "more layouts (up to 5 samples / 3 classes, final shuffles of up to 5 entries), semi layouts up to 6 samples with (2,2) chunks"}


def body_cb_epoch(cfg, seed, epoch, *flat):
    """cfg = (layout, spc or 0 for None, shuffle)"""
    layout, spc0, shuffle = cfg
    C = max(layout) + 1
    counts = [sum(1 for c in layout if c == k) for k in range(C)]
    spc = spc0 if spc0 else max(counts)
    sizes = cb_draw_sizes(layout, spc)
    draws = split_draws(sizes, flat)
    if not all(is_perm(d, len(d)) for d in draws):
        return True
    st = ScriptTorch([list(d) for d in draws])
    try:
        with patched(CB_MOD, torch=st):
            s = CB_MOD.ClassBalancedSampler(ClassDS(layout), shuffle=shuffle, samples_per_class=spc0 or None, seed=seed, rank=0, world_size=1)
            s.indices_per_class = [LT(t.tolist()) for t in s.indices_per_class]
            s.set_epoch(epoch)
            out = list(s)
            ln = len(s)
    except ScriptExhausted:
        return fail("more random draws than one permutation round per class needs")
    except ShimMiss:
        raise  # the stub does not model an operation the code used: harness error, not a verdict
    except Exception as e:
        return fail("exception " + type(e).__name__)
    n = len(layout)
    if ln != len(out) or ln != max(2, C) * spc:
        return fail("epoch length is not classes x samples_per_class")
    for i in out:
        if not (0 <= i < n):
            return fail("invalid index")
    for k in range(C):
        have = [i for i in out if layout[i] == k]
        if len(have) != spc:
            return fail("class does not occur exactly samples_per_class times")
        lo = spc // counts[k]
        for smp in range(n):
            if layout[smp] == k:
                used = sum(1 for i in have if i == smp)
                if not (lo <= used <= lo + 1):
                    return fail("samples of a class are not reused as evenly as possible")
    return True


def semi_sizes(a, b, L, U, length):
    nl = sum(1 for i in range(length) if i % (L + U) < L)
    nu = length - nl
    return [a] * ((nl + a - 1) // a + 1), [b] * ((nu + b - 1) // b + 1)


def body_semi(cfg, seed, epoch, h0, h1, h2, *flat):
    """cfg = (layout, L, U, W, length_mode)"""
    layout, L, U, W, mode = cfg
    lab = [i for i, c in enumerate(layout) if c != -1]
    unl = [i for i, c in enumerate(layout) if c == -1]
    a, b = len(lab), len(unl)
    if mode == "labeled":
        chunks = a // L
    elif mode == "unlabeled":
        chunks = b // U
    else:
        chunks = (a + b) // (L + U)
    eff = chunks * (L + U)
    per_rank = eff // W
    la, ub = semi_sizes(a, b, L, U, per_rank)
    draws = split_draws(la + ub, flat)
    if not all(is_perm(d, len(d)) for d in draws):
        return True
    for r in range(W):
        # labeled and unlabeled iterators share one generator: draws are consumed in call order,
        # so the pool is handed out by size
        st = ScriptTorch([list(d) for d in draws], hashes=[h0, h1, h2])
        try:
            with patched(SS_MOD, torch=st):
                s = SS_MOD.SemiSampler(ClassDS(layout), num_labeled=L, num_unlabeled=U, rank=r, world_size=W, seed=seed, length_mode=mode)
                s.set_epoch(epoch)
                out = list(s)
                ln = len(s)
                effl = s.effective_length
        except ScriptExhausted:
            return fail("more permutation draws than whole-pool passes need")
        except Exception as e:
            return fail("exception " + type(e).__name__)
        if effl != eff:
            return fail("effective length does not match the length mode")
        if ln != per_rank or len(out) != per_rank:
            return fail("per-rank stream length differs from len(sampler) / between ranks")
        ls, us = [], []
        for i, idx in enumerate(out):
            if i % (L + U) < L:
                if idx not in lab:
                    return fail("labeled slot holds an unlabeled or invalid index")
                ls.append(idx)
            else:
                if idx not in unl:
                    return fail("unlabeled slot holds a labeled or invalid index")
                us.append(idx)
        for stream, pool in ((ls, lab), (us, unl)):
            P = len(pool)
            for c0 in range(0, len(stream), P):
                chunk = stream[c0:c0 + P]
                for x in range(len(chunk)):
                    for y in range(x):
                        if chunk[x] == chunk[y]:
                            return fail("an element repeats before its whole pool was consumed")
    return True


def body_weighted(cfg, size, seed, epoch, *draws):
    """cfg = (n, W): all ranks of one epoch together never repeat an index"""
    n, W = cfg
    eff = n if size == 0 else size
    if eff > n:
        return True
    d1 = list(draws[:n][:eff])
    d2 = list(draws[n:2 * n][:eff])
    if not (distinct_in(d1, n) and distinct_in(d2, n) and len(d1) == eff and len(d2) == eff):
        return True
    st = ScriptTorch([list(d1), list(d2)])
    try:
        with patched(WS_MOD, torch=st):
            outs = []
            for r in range(W):
                s = WS_MOD.WeightedSampler(LenDS(n), weights=[1.0] * n, size=None if size == 0 else size, seed=seed, rank=r, world_size=W)
                s.set_epoch(epoch)
                out = list(s)
                if len(s) != eff // W or len(out) != len(s):
                    return fail("epoch length does not match size // world_size")
                outs += out
    except ScriptExhausted:
        return fail("ranks asked for draws under more than two different generator keys")
    except ShimMiss:
        raise
    except Exception as e:
        return fail("exception " + type(e).__name__)
    for x in range(len(outs)):
        if not (0 <= outs[x] < n):
            return fail("invalid index")
        for y in range(x):
            if outs[x] == outs[y]:
                return fail("index repeated within an epoch (over all ranks)")
    return True


SEMI_LAYOUTS_Q = [(0, -1), (0, -1, -1), (1, 0, -1), (0, -1, 1, -1), (-1, -1, -1, 0), (0, 1, 0, -1, -1)]
SEMI_LAYOUTS_T = SEMI_LAYOUTS_Q + [(0, 1, 2, -1, -1, -1), (-1, 0, -1, 0, -1, 1)]


def flat_params(sizes, prefix="d"):
    ps, pre = [], []
    for di, s in enumerate(sizes):
        for k in range(s):
            ps.append((f"{prefix}{di}_{k}", "int"))
            pre.append(f"0 <= {prefix}{di}_{k} < {s}")
    return ps, pre


def conditions(tier, rng):
    H = "harness.c13"
    q = tier == "quick"
    to = 600 if q else 1800
    conds = []
    for layout in (CB_LAYOUTS_Q if q else CB_LAYOUTS_T):
        C = max(layout) + 1
        counts = [sum(1 for c in layout if c == k) for k in range(C)]
        for spc0 in (0, 1, 2):
            spc = spc0 or max(counts)
            sizes = cb_draw_sizes(layout, spc)
            if sizes[-1] > (4 if q else 5):
                continue
            for shuffle in (True, False):
                ps, pre = flat_params(sizes)
                conds.append(Cond(
                    name=f"class-balanced-epoch[{''.join(map(str, layout))};spc={spc0 or 'None'};shuffle={int(shuffle)}]", harness=H, body="body_cb_epoch",
                    cfg=(layout, spc0, shuffle), params=[("seed", "int"), ("epoch", "int")] + ps, pre=["0 <= epoch"] + pre, timeout=to,
                    group="class-balanced-epoch", cost=3 ** len(sizes), bounds="layout and samples_per_class enumerated; every permutation draw, seed, epoch symbolic"))
    # a class much smaller than samples_per_class (three permutation passes over it)
    for layout, spc0 in (((0, 1), 3),):
        sizes = cb_draw_sizes(layout, spc0)
        ps, pre = flat_params(sizes)
        conds.append(Cond(
            name=f"class-balanced-epoch[{''.join(map(str, layout))};spc={spc0};shuffle=1;many-passes]", harness=H, body="body_cb_epoch",
            cfg=(layout, spc0, True), params=[("seed", "int"), ("epoch", "int")] + ps, pre=["0 <= epoch"] + pre, timeout=to,
            group="class-balanced-epoch", cost=3 ** len(sizes) * 10, bounds="layout and samples_per_class enumerated; every permutation draw, seed, epoch symbolic"))
    for layout in (SEMI_LAYOUTS_Q if q else SEMI_LAYOUTS_T):
        a = sum(1 for c in layout if c != -1)
        b = len(layout) - a
        for L, U in ((1, 1), (1, 2), (2, 1)) if q else ((1, 1), (1, 2), (2, 1), (2, 2)):
            for mode in ("labeled", "unlabeled", "all"):
                for W in (1, 2):
                    chunks = {"labeled": a // L, "unlabeled": b // U, "all": (a + b) // (L + U)}[mode]
                    per_rank = chunks * (L + U) // W
                    if per_rank == 0 or per_rank > 6:
                        continue
                    la, ub = semi_sizes(a, b, L, U, per_rank)
                    if len(la) + len(ub) > 6:
                        continue
                    ps, pre = flat_params(la + ub)
                    conds.append(Cond(
                        name=f"semi[{','.join(map(str, layout))};L={L},U={U};{mode};W={W}]", harness=H, body="body_semi", cfg=(layout, L, U, W, mode),
                        params=[("seed", "int"), ("epoch", "int"), ("h0", "int"), ("h1", "int"), ("h2", "int")] + ps, pre=["0 <= epoch"] + pre,
                        timeout=to, group="semi-supervised", cost=2 ** (len(la) + len(ub)) * W,
                        bounds="layout, chunk sizes, length mode, W enumerated; all ranks; permutation draws, seed, epoch, rank/epoch hashes symbolic"))
    for n in range(1, 5 if q else 6):
        for W in (1, 2, 3):
            conds.append(Cond(
                name=f"weighted[n={n},W={W}]", harness=H, body="body_weighted", cfg=(n, W),
                params=[("size", "int"), ("seed", "int"), ("epoch", "int")] + [(f"d{k}", "int") for k in range(2 * n)],
                pre=[f"0 <= size <= {n}", "0 <= epoch"] + [f"0 <= d{k} < {n}" for k in range(2 * n)], timeout=to, group="weighted", cost=n * n,
                bounds="size (0=None) symbolic; two symbolic multinomial draws (ranks that seed their generator alike share one); all ranks together"))
    return conds
