"""E2 stub: the `torch` names the samplers use in __iter__, with every random draw scripted.

torch.Generator().manual_seed(s) only records the key s; randperm / multinomial / random_ return the
entries of a draw table keyed by (key, call number): equal keys -> equal draws (the contract of a
seeded generator), different keys -> independent draws. The table's contents are harness arguments
(symbolic), assumed to satisfy the documented contract of the call (a permutation, distinct indices).
Tensors are `LT`: a Python list with the few tensor methods the samplers call.
"""


class ScriptExhausted(Exception):
    pass


class ShimMiss(Exception):
    """the code under test used a tensor operation this stub does not model: the run says nothing
    about the property (mapped to a harness error, never to a violation)"""


class LT:
    def __init__(self, vals):
        self.v = list(vals)

    def __len__(self):
        return len(self.v)

    def __getitem__(self, k):
        if isinstance(k, LT):
            return LT([self.v[i] for i in k.v])
        if isinstance(k, slice):
            return LT(self.v[k])
        return self.v[k]

    def tolist(self):
        return list(self.v)

    def repeat_interleave(self, repeats):
        out = []
        for x in self.v:
            for _ in range(repeats):
                out.append(x)
        return LT(out)

    def item(self):
        assert len(self.v) == 1
        return self.v[0]

    def __iter__(self):
        return iter(self.v)

    def _ew(self, o, f):
        if isinstance(o, LT):
            return LT([f(a, b) for a, b in zip(self.v, o.v)])
        return LT([f(a, o) for a in self.v])

    def __mod__(self, o):
        return self._ew(o, lambda a, b: a % b)

    def __add__(self, o):
        return self._ew(o, lambda a, b: a + b)

    def __sub__(self, o):
        return self._ew(o, lambda a, b: a - b)

    def __mul__(self, o):
        return self._ew(o, lambda a, b: a * b)

    def __floordiv__(self, o):
        return self._ew(o, lambda a, b: a // b)

    def __getattr__(self, name):
        raise ShimMiss("LT." + name)


class Scalar:
    def __init__(self, script):
        self.script = script
        self.val = None

    def random_(self, generator=None):
        self.val = self.script.hash_of(generator.key)
        return self

    def item(self):
        return self.val


class Gen:
    def __init__(self, script):
        self.script = script
        self.key = None
        self.calls = 0

    def manual_seed(self, s):
        self.key = s
        self.calls = 0
        self.script.keys_seen.append(s)
        return self


class ScriptTorch:
    """perms: list of candidate draws (each a list of symbolic ints); assigned to (key, call) on first use"""
    int64 = "int64"
    int32 = "int32"
    long = "long"

    def __init__(self, draws, hashes=()):
        self.pool = list(draws)
        self.table = []  # [(key, call, n, values)]
        self.hpool = list(hashes)
        self.htable = []
        self.keys_seen = []
        self.randperm_calls = 0

    def Generator(self):
        return Gen(self)

    def _draw(self, generator, n):
        key, call = generator.key, generator.calls
        generator.calls += 1
        for k, c, m, vals in self.table:
            if k == key and c == call and m == n:
                return vals
        for i, cand in enumerate(self.pool):
            if len(cand) == n:
                vals = self.pool.pop(i)
                self.table.append((key, call, n, vals))
                return vals
        raise ScriptExhausted()

    def hash_of(self, key):
        for k, v in self.htable:
            if k == key:
                return v
        if not self.hpool:
            raise ScriptExhausted()
        v = self.hpool.pop(0)
        self.htable.append((key, v))
        return v

    def randperm(self, n, generator=None):
        self.randperm_calls += 1
        return LT(self._draw(generator, n))

    def multinomial(self, weights, num_samples, replacement=False, generator=None):
        assert not replacement
        return LT(self._draw(generator, num_samples))

    def arange(self, n):
        return LT(range(n))

    def concat(self, parts):
        out = []
        for p in parts:
            out += p.v
        return LT(out)

    def empty(self, shape, dtype=None):
        return Scalar(self)

    def __getattr__(self, name):
        raise ShimMiss("torch." + name)


def is_perm(vals, n):
    """contract of randperm(n): every value of range(n) exactly once (expressed without sorting so
    that it stays a conjunction of comparisons for the solver)"""
    if len(vals) != n:
        return False
    for a in range(n):
        if not (0 <= vals[a] < n):
            return False
        for b in range(a):
            if vals[a] == vals[b]:
                return False
    return True


def distinct_in(vals, n):
    for a in range(len(vals)):
        if not (0 <= vals[a] < n):
            return False
        for b in range(a):
            if vals[a] == vals[b]:
                return False
    return True
