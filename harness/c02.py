"""C02 - stacked subsets, concats and wrappers address the right underlying sample."""
from vf.common import fail
from vf.engine import Cond
from kappadata.datasets.kd_dataset import KDDataset
from kappadata.datasets.kd_wrapper import KDWrapper
from kappadata.datasets.kd_subset import KDSubset
from kappadata.datasets.kd_concat_dataset import KDConcatDataset
import importlib
GA = importlib.import_module("kappadata.utils.getall_as_tensor")  # kappadata.utils re-exports a function of the same name

MANIFEST_LEVEL = "Per enumerated nesting of KDSubset / KDConcatDataset (plain and balanced) / KDWrapper layers (depth <= 3, thorough 4) the solver decides, for unbounded symbolic part sizes, symbolic subset index lists and symbolic k (negative included), that item k of the real composed dataset is the leaf sample the composition of the layers' index maps names; bulk accessors vs per-sample accessors, len, utils.getall fast/slow path and introspection through linear chains are separate conditions. Tests use 1-2 layers with literal lists."
MANIFEST_NOTE = "Trusted: CrossHair/z3; probe leaf datasets returning (item, leaf tag, index); the oracle is the composition of maps written from the statement. balanced concat: int(idx/len(parts)) is decided over the reals (binary64 division rounding for idx >= 2^53 is outside)."
MANIFEST_TECHNIQUE = "bounded symbolic execution of the real code (CrossHair on z3): one condition per stack shape, sizes/index lists/k symbolic; counterexamples replayed concretely"
PROPERTY = "C02"
ENCODED = [
    "kappadata.datasets.kd_subset:KDSubset.__getattr__",
    "kappadata.datasets.kd_subset:KDSubset._call_getitem",
    "kappadata.datasets.kd_subset:KDSubset._call_getall",
    "kappadata.datasets.kd_subset:KDSubset.get_wrappers_of_type",
    "kappadata.datasets.kd_concat_dataset:KDConcatDataset.__getattr__",
    "kappadata.datasets.kd_concat_dataset:KDConcatDataset._call_getitem",
    "kappadata.datasets.kd_concat_dataset:KDConcatDataset._to_concat_idx",
    "kappadata.datasets.kd_concat_dataset:KDConcatDataset._call_getall",
    "kappadata.datasets.kd_concat_dataset:KDConcatDataset.__len__",
    "kappadata.datasets.kd_concat_dataset:KDConcatDataset.dispose",
    "kappadata.datasets.kd_wrapper:KDWrapper.__getattr__",
    "kappadata.datasets.kd_wrapper:KDWrapper.getshape",
    "kappadata.datasets.kd_wrapper:KDWrapper.getdim",
    "kappadata.datasets.kd_wrapper:KDWrapper.get_wrappers_of_type",
    "kappadata.datasets.kd_wrapper:KDWrapper.dispose",
    "kappadata.utils.getall_as_tensor:getall",
    "kappadata.utils.getall_as_tensor:getall_as_list",
]
STUBS = ["Leaf: KDDataset of symbolic size whose getitem_x/getitem_class return (item, leaf tag, normalised index), getall_class the list of them; counts dispose calls",
         "W: KDWrapper subclass without own accessors (pure delegation)"]
ASSUMPTIONS = ["leaves normalise negative indices themselves (a wrapper layer passes k through unchanged)",
               "balanced concat is addressed with k >= 0 (its len() is undefined by design)"]
OUTSIDE = ["non-linear wrapper graphs for introspection (a concat's introspection follows part 0 only, as the code comments say)", "tensor-valued indices", "stacks deeper than the bound"]
BOUNDS = {"quick": "all stack shapes of depth <= 3 over {subset(3 symbolic indices), wrapper, concat(2..3 parts), balanced concat(2 parts)}, leaf sizes unbounded, k in [-len,len); bulk conditions with concrete leaf sizes <= 3 and symbolic index entries (sampled shapes)",
          "thorough": "depth <= 4 (sampled 300 shapes of depth 4), all bulk shapes of depth <= 3"}


class Leaf(KDDataset):
    def __init__(self, n, tag):
        super().__init__()
        self.n = n
        self.tag = tag
        self.disposed = 0
        self.marker = ("marker", tag)
        self._classes = None

    def __len__(self):
        return self.n

    def _norm(self, i):
        return i if i >= 0 else i + self.n

    def getitem_x(self, idx, ctx=None):
        return ("x", self.tag, self._norm(idx))

    def getitem_class(self, idx, ctx=None):
        return ("class", self.tag, self._norm(idx))

    def getall_class(self):
        # like many real datasets: hands out its internal list, not a copy
        if self._classes is None:
            self._classes = [("class", self.tag, i) for i in range(self.n)]
        return self._classes

    def getshape_class(self):
        return (7 + self.tag,)

    def dispose(self):
        self.disposed += 1


class W(KDWrapper):
    pass


class W2(KDWrapper):
    pass


# spec: ("leaf", tag) | ("sub", child, m) | ("wrap", child) | ("cat", (children...)) | ("bal", (children...))
def shapes(depth, leaf_counter=None):
    if depth == 1:
        return [("leaf",)]
    out = list(shapes(depth - 1))
    prev = shapes(depth - 1)
    for s in prev:
        out.append(("sub", s, 3))
        out.append(("wrap", s))
        out.append(("cat", (s, ("leaf",))))
        out.append(("cat", (("leaf",), s)))
        out.append(("cat", (("leaf",), s, ("leaf",))))
        out.append(("bal", (s, ("leaf",))))
    # drop duplicates, keep order; a balanced concat has no len() by design, so it cannot be a part
    # of another concat (torch's ConcatDataset needs the length of every part)
    seen = []
    for s in out:
        if s[0] in ("cat", "bal") and any(has_bal(c) for c in s[1]):
            continue
        if s not in seen:
            seen.append(s)
    return seen


def depth_of(s):
    if s[0] == "leaf":
        return 1
    if s[0] in ("sub", "wrap"):
        return 1 + depth_of(s[1])
    return 1 + max(depth_of(c) for c in s[1])


def has_bal(s):
    if s[0] == "leaf":
        return False
    if s[0] in ("sub", "wrap"):
        return has_bal(s[1])
    return s[0] == "bal" or any(has_bal(c) for c in s[1])


def label(s):
    if s[0] == "leaf":
        return "L"
    if s[0] == "sub":
        return f"S({label(s[1])})"
    if s[0] == "wrap":
        return f"W({label(s[1])})"
    return ("C" if s[0] == "cat" else "B") + "(" + ",".join(label(c) for c in s[1]) + ")"


class Names:
    def __init__(self):
        self.sizes = []
        self.idx = []


def annotate(s, names):
    """give every leaf a size parameter and every subset its index parameters; returns annotated spec"""
    if s[0] == "leaf":
        nm = f"n{len(names.sizes)}"
        names.sizes.append(nm)
        return ("leaf", len(names.sizes) - 1, nm)
    if s[0] == "sub":
        child = annotate(s[1], names)
        ps = []
        for _ in range(s[2]):
            nm = f"s{len(names.idx)}"
            names.idx.append((nm, child))
            ps.append(nm)
        return ("sub", child, tuple(ps))
    if s[0] == "wrap":
        return ("wrap", annotate(s[1], names))
    return (s[0], tuple(annotate(c, names) for c in s[1]))


def len_expr(a):
    """source of len(spec) over the parameter names (None if undefined: balanced concat)"""
    if a[0] == "leaf":
        return a[2]
    if a[0] == "sub":
        return str(len(a[2]))
    if a[0] == "wrap":
        return len_expr(a[1])
    if a[0] == "cat":
        parts = [len_expr(c) for c in a[1]]
        if any(p is None for p in parts):
            return None
        return "(" + " + ".join(parts) + ")"
    return None


def build(a, env, leaves):
    if a[0] == "leaf":
        lf = Leaf(env[a[2]], a[1])
        leaves.append(lf)
        return lf
    if a[0] == "sub":
        return KDSubset(build(a[1], env, leaves), [env[p] for p in a[2]])
    if a[0] == "wrap":
        return W(build(a[1], env, leaves))
    if a[0] == "cat":
        return KDConcatDataset([build(c, env, leaves) for c in a[1]])
    return KDConcatDataset([build(c, env, leaves) for c in a[1]], balanced_sampling=True)


def length(a, env):
    if a[0] == "leaf":
        return env[a[2]]
    if a[0] == "sub":
        return len(a[2])
    if a[0] == "wrap":
        return length(a[1], env)
    if a[0] == "cat":
        return sum(length(c, env) for c in a[1])
    raise ValueError("balanced")


def expect(a, env, k):
    """(leaf tag, leaf index) that item k of the composed dataset is - composition of the layers' maps"""
    if a[0] == "leaf":
        n = env[a[2]]
        return a[1], (k if k >= 0 else k + n)
    if a[0] == "wrap":
        return expect(a[1], env, k)
    if a[0] == "sub":
        vals = [env[p] for p in a[2]]
        return expect(a[1], env, vals[k])
    if a[0] == "cat":
        sizes = [length(c, env) for c in a[1]]
        if k < 0:
            k = k + sum(sizes)
        for c, sz in zip(a[1], sizes):
            if k < sz:
                return expect(c, env, k)
            k = k - sz
        raise IndexError
    # balanced: round-robin over the parts
    P = len(a[1])
    j = k % P
    child = a[1][j]
    return expect(child, env, (k // P) % length(child, env))


def mk_env(names_sizes, names_idx, vals):
    names = list(names_sizes) + list(names_idx)
    return {nm: v for nm, v in zip(names, vals)}


def body_map(cfg, k, *vals):
    """cfg = (annotated spec, size names, idx names, item)"""
    a, nsz, nidx, item = cfg
    env = mk_env(nsz, nidx, vals)
    try:
        ds = build(a, env, [])
        got = getattr(ds, "getitem_" + item)(k)
        tag, li = expect(a, env, k)
    except Exception as e:
        return fail("exception " + type(e).__name__)
    if got != (item, tag, li):
        return fail("item k is not item map(k) of the underlying dataset")
    return True


def body_bulk(cfg, *vals):
    """cfg = (annotated spec, concrete sizes, idx names): getall == [getitem(k)], len == |map|,
    utils.getall fast path (class) and slow path (x) agree with the per-sample accessors"""
    a, sizes, nidx = cfg
    env = {f"n{i}": s for i, s in enumerate(sizes)}
    env.update({nm: v for nm, v in zip(nidx, vals)})
    try:
        ds = build(a, env, [])
        n = len(ds)
        if n != length(a, env):
            return fail("len differs from the size of the map")
        per = [ds.getitem_class(k) for k in range(n)]
        bulk = ds.getall_class()
        if list(bulk) != per:
            return fail("getall_class differs from per-sample getitem_class")
        if list(ds.getall_class()) != per:
            return fail("a second getall_class call differs (bulk accessor is not repeatable)")
        want = [("class",) + expect(a, env, k) for k in range(n)]
        if per != want:
            return fail("per-sample accessor differs from the map")
        if GA.getall_as_list(ds, "class") != per:
            return fail("utils.getall (fast path) differs")
        slow = GA.getall(ds, "x")
        if list(slow) != [ds.getitem_x(k) for k in range(n)]:
            return fail("utils.getall (slow path) differs")
    except Exception as e:
        return fail("exception " + type(e).__name__)
    return True


def body_intro(cfg, q, n):
    """linear chain introspection; cfg = tuple of layer kinds from outermost to innermost
    ('S' subset, 'W' wrapper W, 'V' wrapper W2, 'C' single/multi part concat following part 0)"""
    chain = cfg
    try:
        base = Leaf(n, 0)
        others = []
        ds = base
        layers = []
        for kind in reversed(chain):
            if kind == "S":
                ds = KDSubset(ds, [0])
            elif kind == "W":
                ds = W(ds)
            elif kind == "V":
                ds = W2(ds)
            elif kind == "C":
                others.append(Leaf(n, 1 + len(others)))  # every concat layer gets its own second part
                ds = KDConcatDataset([ds, others[-1]])
            layers.append(ds)
        layers.reverse()  # outermost first
        listed = [l for l in layers if not isinstance(l, KDConcatDataset)]
        if ds.root_dataset is not base:
            return fail("root_dataset")
        if ds.all_wrappers != listed:
            return fail("all_wrappers")
        if ds.all_wrapper_types != [type(l) for l in listed]:
            return fail("all_wrapper_types")
        for typ in (W, W2, KDSubset):
            if ds.get_wrappers_of_type(typ) != [l for l in listed if type(l) == typ]:
                return fail("get_wrappers_of_type")
            if ds.has_wrapper_type(typ) != any(type(l) == typ for l in listed):
                return fail("has_wrapper_type")
        if listed:
            w = listed[q % len(listed)]
            if not ds.has_wrapper(w):
                return fail("has_wrapper")
        if ds.has_wrapper(W(Leaf(1, 9))):
            return fail("has_wrapper of a foreign wrapper")
        if ds.marker != ("marker", 0):
            return fail("attribute delegation")
        if ds.getshape_class() != (7,):
            return fail("getshape delegation")
        if "C" not in chain or chain[0] != "C":
            if ds.getdim_class() != 7:
                return fail("getdim delegation")
        ds.dispose()
        if base.disposed != 1:
            return fail("dispose does not reach the base exactly once")
        if any(o.disposed != 1 for o in others):
            return fail("dispose does not reach every part of a concat exactly once")
    except Exception as e:
        return fail("exception " + type(e).__name__)
    return True


def map_cond(s, item, to, H="harness.c02"):
    names = Names()
    a = annotate(s, names)
    bal = has_bal(s)
    # balanced sampling computes int(k / parts) % len(part): modulo by a symbolic length is
    # non-linear, so these shapes get bounded sizes and k (stated in the condition's bounds)
    pre = [f"{n} >= 1" if not bal else f"1 <= {n} <= 3" for n in names.sizes]
    for nm, child in names.idx:
        le = len_expr(child)
        pre.append(f"0 <= {nm} < {le}" if le is not None else f"0 <= {nm} <= 12")
    le = len_expr(a)
    pre.append(f"-{le} <= k < {le}" if le is not None else "0 <= k <= 12")
    idx_names = tuple(nm for nm, _ in names.idx)
    return Cond(
        name=f"map[{label(s)};{item}]", harness=H, body="body_map", cfg=(a, tuple(names.sizes), idx_names, item),
        params=[("k", "int")] + [(n, "int") for n in names.sizes] + [(n, "int") for n in idx_names],
        pre=pre, timeout=to, group=f"index-map-depth{depth_of(s)}", cost=depth_of(s) + len(idx_names), floats=has_bal(s),
        bounds="leaf sizes unbounded, subset index entries symbolic in range, k symbolic incl. negative" if not bal else
        "balanced concat: leaf sizes <= 3, 0 <= k <= 12 (round-robin over parts, wrap-around inside each part), int(k/parts) over the reals")


def conditions(tier, rng):
    H = "harness.c02"
    q = tier == "quick"
    to = 600 if q else 1800
    conds = []
    all3 = shapes(3)
    sel = list(all3)
    if not q:
        d4 = [s for s in shapes(4) if depth_of(s) == 4]
        sel += rng.sample(d4, min(300, len(d4)))
    for s in sel:
        conds.append(map_cond(s, "x" if len(conds) % 2 == 0 else "class", to))
    # bulk accessors: concrete sizes, symbolic index entries
    bulk_shapes = [s for s in all3 if not has_bal(s)]
    if q:
        bulk_shapes = [s for s in bulk_shapes if depth_of(s) <= 2] + rng.sample([s for s in bulk_shapes if depth_of(s) == 3], 10)
    for s in bulk_shapes:
        names = Names()
        a = annotate(s, names)
        sizes = tuple(rng.choice((1, 2, 3)) for _ in names.sizes)
        env = {f"n{i}": v for i, v in enumerate(sizes)}
        pre = []
        for nm, child in names.idx:
            pre.append(f"0 <= {nm} < {length(child, env) if not has_bal(s) else 1}")
        idx_names = tuple(nm for nm, _ in names.idx)
        conds.append(Cond(
            name=f"bulk[{label(s)};sizes={','.join(map(str, sizes))}]", harness=H, body="body_bulk", cfg=(a, sizes, idx_names),
            params=[(n, "int") for n in idx_names], pre=pre, timeout=to, group="bulk-vs-per-sample", cost=3 + 3 * len(idx_names),
            bounds="leaf sizes concrete in {1,2,3}, subset index entries symbolic"))
    chains = ["", "S", "W", "WS", "SW", "WV", "VWS", "SWV", "C", "CW", "WC", "SCW", "WSC"]
    if not q:
        chains += ["SS", "WW", "SSW", "VSW", "CSW", "WCS", "SVC", "VVV", "CC"]
    for ch in chains:
        conds.append(Cond(
            name=f"introspection[{ch or 'leaf'}]", harness=H, body="body_intro", cfg=tuple(ch),
            params=[("q", "int"), ("n", "int")], pre=["0 <= q", "n >= 1"], timeout=to, group="introspection", cost=1,
            bounds="linear chain enumerated, queried layer and base size symbolic"))
    return conds
