"""C18 - collator pipeline keeps the batch layout and context contract."""
import importlib
import itertools

import torch

from vf.common import fail, patched, realize_all
from vf.engine import Cond
from kappadata.collators.base.kd_collator_base import KDCollatorBase
from kappadata.collators.base.kd_compose_collator import KDComposeCollator
from kappadata.collators.base.kd_single_collator import KDSingleCollator
from kappadata.collators.base.kd_single_collator_wrapper import KDSingleCollatorWrapper
from kappadata.collators.pad_sequences_collator import PadSequencesCollator

CB_MOD = importlib.import_module("kappadata.collators.base.kd_collator_base")

MANIFEST_LEVEL = "For every order of 1-3 member collators with default_collate_mode in {None, before, after}, with/without context and dataset modes of 1-3 items, the real KDCollatorBase._call_impl / KDComposeCollator / KDSingleCollator / KDSingleCollatorWrapper run symbolically on batches of symbolic size and symbolic sample tokens against a structural model of default_collate that counts its applications: collation exactly once and at the requested position (orders that cannot be honoured must be refused), layout as the mode says, (batch, ctx) iff configured, ctx keys neither lost nor invented. PadSequencesCollator runs on real tensors with symbolic sequence-length profiles."
MANIFEST_NOTE = "Trusted: CrossHair/z3; the structural model of torch's default_collate (list of tuples -> list of collated columns, list of dicts -> dict of collated values, leaves -> one collated marker); real default_collate type dispatch is library code."
MANIFEST_TECHNIQUE = "bounded symbolic execution of the real collator state machine (CrossHair on z3), one condition per collator order x mode x ctx flag; symbolic batch size, tokens and sequence lengths"
PROPERTY = "C18"
ENCODED = [
    "kappadata.collators.base.kd_collator_base:KDCollatorBase._call_impl",
    "kappadata.collators.base.kd_compose_collator:KDComposeCollator.__init__",
    "kappadata.collators.base.kd_compose_collator:KDComposeCollator.__call__",
    "kappadata.collators.base.kd_single_collator:KDSingleCollator.__call__",
    "kappadata.collators.base.kd_single_collator_wrapper:KDSingleCollatorWrapper.__call__",
    "kappadata.collators.pad_sequences_collator:PadSequencesCollator.collate",
]
STUBS = ["DC: structural model of torch.utils.data.default_collate installed in kd_collator_base, counting applications",
         "Probe collators (KDSingleCollator subclasses) with a configurable default_collate_mode that record whether the batch they saw was collated and add one ctx key each",
         "Tok: opaque per-sample item / ctx value tokens (item name, sample index)"]
ASSUMPTIONS = ["samples have the ModeWrapper layout: bare item or tuple of items, wrapped as (items, ctx) iff return_ctx"]
OUTSIDE = ["torch's default_collate type dispatch", "more than 3 member collators", "batches larger than 3"]
BOUNDS = {"quick": "all 39 orders of 1-3 collators over {None,before,after}; dataset modes of 1..3 items; return_ctx on/off; batch size 1..3 and sample indices symbolic; padding: batch <=3, sequence lengths in 0..3 symbolic",
          "thorough": "same orders with batch size up to 4; padding lengths 0..4"}


class Tok:
    def __init__(self, kind, name, idx):
        self.t = (kind, name, idx)

    def __eq__(self, o):
        return isinstance(o, Tok) and self.t == o.t

    def __hash__(self):
        return 0

    def __repr__(self):
        return "Tok" + repr(self.t)


class Collated:
    def __init__(self, toks):
        self.toks = list(toks)

    def __eq__(self, o):
        return isinstance(o, Collated) and self.toks == o.toks

    def __hash__(self):
        return 0


class DC:
    """structural model of default_collate"""

    def __init__(self):
        self.calls = 0

    def __call__(self, batch):
        self.calls += 1
        if _has_collated(batch):
            raise DoubleCollate()
        return self._rec(list(batch))

    def _rec(self, batch):
        first = batch[0]
        if isinstance(first, Collated) or (isinstance(first, (list, dict)) and _has_collated(first)):
            raise DoubleCollate()
        if isinstance(first, tuple):
            return [self._rec([b[k] for b in batch]) for k in range(len(first))]
        if isinstance(first, dict):
            return {k: self._rec([b[k] for b in batch]) for k in first}
        return Collated(batch)


def _has_collated(x):
    if isinstance(x, Collated):
        return True
    if isinstance(x, dict):
        return any(_has_collated(v) for v in x.values())
    if isinstance(x, (list, tuple)):
        return any(_has_collated(v) for v in x)
    return False


class DoubleCollate(Exception):
    pass


class Probe(KDSingleCollator):
    def __init__(self, mode, k, **kw):
        super().__init__(**kw)
        self._mode = mode
        self.k = k
        self.saw_collated = None
        self.saw_ctx_in_batch = None

    @property
    def default_collate_mode(self):
        return self._mode

    def collate(self, batch, dataset_mode, ctx=None):
        self.saw_collated = _has_collated(batch)
        self.saw_ctx_in_batch = any(isinstance(b, tuple) and len(b) == 2 and isinstance(b[1], dict) for b in batch) if not self.saw_collated else False
        if ctx is not None:
            ctx["c%d" % self.k] = Tok("collator", "c%d" % self.k, -1)
        return batch


def make_samples(items, idxs, return_ctx):
    out = []
    for i in idxs:
        vals = tuple(Tok("item", it, i) for it in items)
        s = vals[0] if len(items) == 1 else vals
        if return_ctx:
            s = (s, {"kx": Tok("ctx", "kx", i), "ky": Tok("ctx", "ky", i)})
        out.append(s)
    return out


def expected_batch(items, idxs, collated):
    cols = [[Tok("item", it, i) for i in idxs] for it in items]
    if collated:
        res = [Collated(c) for c in cols]
        return res[0] if len(items) == 1 else res
    rows = [tuple(Tok("item", it, i) for it in items) for i in idxs]
    if len(items) == 1:
        return [r[0] for r in rows]
    return rows


def honourable(modes):
    """can default collation be applied exactly once at the position every member asks for?
    None: must see the uncollated batch; before: must see the collated batch; after: must see the
    uncollated batch and collation happens right after it"""
    collated = False
    for m in modes:
        if m is None and collated:
            return False
        if m == "before":
            collated = True
        if m == "after":
            if collated:
                return False
            collated = True
    return True


def norm(x):
    """tuples/lists of the uncollated layout compare structurally"""
    if isinstance(x, (list, tuple)):
        return [norm(v) for v in x]
    return x


def body_pipeline(cfg, bs, i0, i1, i2, i3):
    """cfg = (modes tuple, items tuple, return_ctx, via) ; via in compose|single|wrapper"""
    modes, items, return_ctx, via = cfg
    bs = realize_all(bs)
    idxs = [i0, i1, i2, i3][:bs]
    dc = DC()
    probes = [Probe(m, k) for k, m in enumerate(modes)]
    mode_str = " ".join(items)
    batch = make_samples(items, idxs, return_ctx)
    ok = honourable(modes)
    try:
        with patched(CB_MOD, default_collate=dc):
            if via == "compose":
                col = KDComposeCollator(probes, dataset_mode=mode_str, return_ctx=return_ctx)
            elif via == "single":
                probes[0].dataset_mode = mode_str
                probes[0].return_ctx = return_ctx
                col = probes[0]
            else:
                col = KDSingleCollatorWrapper(probes[0], dataset_mode=mode_str, return_ctx=return_ctx)
            try:
                out = col(batch)
            except (AssertionError, DoubleCollate):
                if ok:
                    return fail("an order of collation modes that can be honoured was refused")
                return True  # explicit refusal of an order that cannot be honoured
    except Exception as e:
        return fail("exception " + type(e).__name__)
    if not ok:
        return fail("an order that cannot be honoured (collation twice / at the wrong position) was silently accepted")
    any_collate = any(m in ("before", "after") for m in modes)
    # ctx of the samples is collated separately whenever it is split off before the main collation
    n_expected = 0
    if any_collate:
        n_expected += 1
    if return_ctx and (not any_collate or modes[0] != "before"):
        n_expected += 1  # per-sample contexts collated on their own
    if dc.calls != n_expected:
        return fail("default collation not applied exactly once")
    collated = False
    for m, p in zip(modes, probes):
        if m == "before":
            collated = True
        if p.saw_collated != collated:
            return fail("a member collator did not see the batch in the state it asked for")
        if p.saw_ctx_in_batch:
            return fail("per-sample ctx still inside the batch handed to a member collator")
        if m == "after":
            collated = True
    if return_ctx:
        if not (isinstance(out, tuple) and len(out) == 2 and isinstance(out[1], dict)):
            return fail("(batch, ctx) expected")
        res, ctx = out
        want_keys = {"kx", "ky"} | {"c%d" % k for k in range(len(modes))}
        if set(ctx.keys()) != want_keys:
            return fail("context keys lost or invented")
        for key in ("kx", "ky"):
            if ctx[key] != Collated([Tok("ctx", key, i) for i in idxs]):
                return fail("batched context value is not the collation of the per-sample values")
    else:
        res = out
        if isinstance(out, tuple) and len(out) == 2 and isinstance(out[1], dict):
            return fail("ctx returned although not configured")
    if norm(res) != norm(expected_batch(items, idxs, any_collate)):
        return fail("batch layout differs from the dataset mode")
    return True


def body_pad(cfg, l0, l1, l2):
    """PadSequencesCollator. cfg = (batch size, with_ctx, fields) fields: 'seq' | 'seq+scalar' | 'seq+seq'"""
    B, with_ctx, fields = cfg
    lens = realize_all([l0, l1, l2][:B])
    try:
        samples = []
        for b, L in enumerate(lens):
            seq = torch.arange(1, L + 1, dtype=torch.float32) + 10 * (b + 1)
            if fields == "seq":
                s = seq
            elif fields == "seq+scalar":
                s = (seq, b + 100)
            else:
                s = (seq, torch.ones(L // 2 + 1) * (b + 1))  # second sequence field with its own, smaller maximum
            if with_ctx:
                s = (s, {"k": b + 7})
            samples.append(s)
        col = PadSequencesCollator(dataset_mode="x", return_ctx=with_ctx)
        out = col(samples)
    except Exception as e:
        return fail("exception " + type(e).__name__)
    if with_ctx:
        if not (isinstance(out, tuple) and len(out) == 2 and isinstance(out[1], dict)):
            return fail("(batch, ctx) expected")
        out, ctx = out
        if ctx["k"].tolist() != [b + 7 for b in range(B)]:
            return fail("context not default-collated")
    M = max(lens)
    first = out if fields == "seq" else out[0]
    if tuple(first.shape) != (B, M):
        return fail("not padded to the batch maximum")
    for b, L in enumerate(lens):
        row = first[b].tolist()
        if row[:L] != [float(v + 10 * (b + 1)) for v in range(1, L + 1)] or any(v != 0 for v in row[L:]):
            return fail("original content not preserved / padding not zero")
    if fields == "seq+scalar" and out[1].tolist() != [b + 100 for b in range(B)]:
        return fail("non-sequence field not default-collated")
    if fields == "seq+seq":
        M2 = max(L // 2 + 1 for L in lens)
        if tuple(out[1].shape) != (B, M2):
            return fail("second sequence field not padded to its own maximum")
    return True


MODES = [None, "before", "after"]


def conditions(tier, rng):
    H = "harness.c18"
    q = tier == "quick"
    to = 600 if q else 1800
    conds = []
    bmax = 3 if q else 4
    orders = [o for k in (1, 2, 3) for o in itertools.product(MODES, repeat=k)]
    item_sets = [("x",), ("x", "class"), ("index", "x", "class")]
    for o in orders:
        for return_ctx in (False, True):
            for items in (item_sets if (not q or len(o) <= 2) else [item_sets[rng.randrange(3)]]):
                conds.append(Cond(
                    name=f"compose[{','.join(str(m) for m in o)};{' '.join(items)};ctx={int(return_ctx)}]", harness=H, body="body_pipeline",
                    cfg=(o, items, return_ctx, "compose"),
                    params=[("bs", "int"), ("i0", "int"), ("i1", "int"), ("i2", "int"), ("i3", "int")], pre=[f"1 <= bs <= {bmax}"], timeout=to,
                    group="compose-collator", cost=len(o), bounds="collator order, dataset mode and ctx flag enumerated; batch size and sample indices symbolic"))
    for m in MODES:
        for return_ctx in (False, True):
            for items in item_sets[:2]:
                for via in ("single", "wrapper"):
                    conds.append(Cond(
                        name=f"{via}[{m};{' '.join(items)};ctx={int(return_ctx)}]", harness=H, body="body_pipeline", cfg=((m,), items, return_ctx, via),
                        params=[("bs", "int"), ("i0", "int"), ("i1", "int"), ("i2", "int"), ("i3", "int")], pre=[f"1 <= bs <= {bmax}"], timeout=to,
                        group=f"{via}-collator", cost=1, bounds="mode, dataset mode and ctx flag enumerated; batch size and sample indices symbolic"))
    lmax = 3 if q else 4
    for B in (1, 2, 3):
        for with_ctx in (False, True):
            for fields in ("seq", "seq+scalar", "seq+seq"):
                conds.append(Cond(
                    name=f"pad[B={B};ctx={int(with_ctx)};{fields}]", harness=H, body="body_pad", cfg=(B, with_ctx, fields),
                    params=[("l0", "int"), ("l1", "int"), ("l2", "int")], pre=[f"0 <= l0 <= {lmax}", f"0 <= l1 <= {lmax}", f"0 <= l2 <= {lmax}"] + (["l1 == 0"] if B < 2 else []) + (["l2 == 0"] if B < 3 else []),
                    timeout=to, group="pad-sequences", cost=(lmax + 1) ** B, bounds="sequence-length profile symbolic (realised at the tensor boundary), contents unique per sample"))
    return conds
