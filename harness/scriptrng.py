"""E2 stub: contract-only stand-in for numpy.random.Generator. Every draw is the next harness argument,
*assumed* into the documented range of the call (a draw outside it makes the path vacuous)."""
from vf.common import realize_all


class AssumptionFailed(Exception):
    """a scripted draw lies outside the documented range of the call that consumed it"""


class ScriptExhausted(Exception):
    pass


class One:
    """1-element integer array as returned by integers(..., size=(1,))"""

    def __init__(self, v):
        self.v = v

    def __int__(self):
        return realize_all(self.v)

    __index__ = __int__


class ScriptRng:
    def __init__(self, ints=(), floats=()):
        self.ints = list(ints)
        self.floats = list(floats)
        self.log = []

    def _next_int(self):
        if not self.ints:
            raise ScriptExhausted()
        return self.ints.pop(0)

    def _next_float(self):
        if not self.floats:
            raise ScriptExhausted()
        return self.floats.pop(0)

    def integers(self, low, high=None, size=None):
        if high is None:
            low, high = 0, low
        if not low < high:
            raise ValueError("low >= high")
        v = self._next_int()
        if not (low <= v < high):
            raise AssumptionFailed()
        self.log.append(("integers", v))
        if size is not None:
            return One(v)
        return v

    def uniform(self, low=0.0, high=1.0):
        v = self._next_float()
        if not (low <= v <= high):
            raise AssumptionFailed()
        self.log.append(("uniform", v))
        return v

    def random(self):
        v = self._next_float()
        if not (0.0 <= v < 1.0):
            raise AssumptionFailed()
        self.log.append(("random", v))
        return v

    def beta(self, a, b, size=None):
        v = self._next_float()
        if not (0.0 <= v <= 1.0):
            raise AssumptionFailed()
        self.log.append(("beta", v))
        return v


class ApproxMath:
    """over-approximation of C math for *bounds* properties: exp(x) is some positive number, sqrt(x)
    some non-negative number (taken from the script), log is the real one (constructor-time only)"""

    def __init__(self, rng, real):
        self._rng = rng
        self._real = real

    def exp(self, x):
        v = self._rng._next_float()
        if not v > 0:
            raise AssumptionFailed()
        return v

    def sqrt(self, x):
        # the argument is not inspected (it is a product of positive factors in every caller; testing
        # its sign would hand the solver a non-linear real constraint it answers with 'unknown')
        v = self._rng._next_float()
        if not v >= 0:
            raise AssumptionFailed()
        return v

    def log(self, x):
        return self._real.log(x)

    def __getattr__(self, name):
        return getattr(self._real, name)
