"""C11 - sample-level mix returns a convex combination with matching label weights."""
import importlib

import torch

from vf.common import fail, patched, realize_all
from vf.engine import Cond
from kappadata.datasets.kd_dataset import KDDataset
from kappadata.wrappers.sample_wrappers.kd_mix_wrapper import KDMixWrapper
from kappadata.wrappers.mode_wrapper import ModeWrapper

MW = importlib.import_module("kappadata.wrappers.sample_wrappers.kd_mix_wrapper")

MANIFEST_LEVEL = "The real KDMixWrapper (getitem_x / getitem_class / getitem_xclass, fused through ModeWrapper for the four request forms) runs on a tiny real-tensor dataset whose samples encode their id and are handed out as views of the stored data (as indexing a tensor does); the per-sample generator is a stub keyed by the seed whose draws (apply, partner, beta weight on a grid) are symbolic harness arguments realised at the tensor boundary, so the solver enumerates the draw space exhaustively within the bounds: untouched sample + one-hot or the convex combination with the same partner and weight for data and label, label rows non-negative summing to one, p=1 always mixes, all request forms describe one draw, repeated requests agree and the wrapped dataset is left unchanged. Three example tests with fixed seeds exist."
MANIFEST_NOTE = "Trusted: CrossHair/z3 for enumerating the draws; torch kernels behind the realisation boundary (concrete tensor arithmetic, tolerance 1e-5); the generator stub (equal seeds give equal draws). Outside: the cutmix branch (NotImplementedError by design), continuous beta values off the grid."
MANIFEST_TECHNIQUE = "symbolic execution of the real wrapper with symbolic draws realised at the tensor boundary (CrossHair on z3, exhaustive over the bounded draw space per configuration)"
PROPERTY = "C11"
ENCODED = [
    "kappadata.wrappers.sample_wrappers.kd_mix_wrapper:KDMixWrapper.__init__",
    "kappadata.wrappers.sample_wrappers.kd_mix_wrapper:KDMixWrapper.getitem_x",
    "kappadata.wrappers.sample_wrappers.kd_mix_wrapper:KDMixWrapper.getitem_class",
    "kappadata.wrappers.sample_wrappers.kd_mix_wrapper:KDMixWrapper.getitem_xclass",
    "kappadata.utils.one_hot:to_one_hot_vector",
]
STUBS = ["SeedRng: np.random.default_rng(seed=s) in the wrapper's module returns a generator whose draws are the harness arguments (the same for equal seeds): random() and beta() on the grid k/4, integers() symbolic",
         "VDS: leaf dataset storing one tensor per sample and returning views of the stored data"]
ASSUMPTIONS = ["draws lie in the documented range of the numpy call", "float comparisons with tolerance 1e-5"]
OUTSIDE = ["cutmix branch (raises NotImplementedError by design)", "datasets larger than 3 samples / samples longer than 4 elements"]
BOUNDS = {"quick": "3 samples, shapes equal (3,) or differing (3,),(2,),(4,) with pad_or_cut_end, 2-D (2,2); mixup_p in {0.5,1.0}; request forms x class | class x | x | class; apply in {0, .25, .75}, beta in {0, .25, .5, 1}, partner and index symbolic",
          "thorough": "same"}


class SeedRng:
    def __init__(self, draws):
        self.d = list(draws)

    def random(self):
        return min(realize_all(self.d[0]) / 4.0, 0.999)

    def integers(self, high):
        return realize_all(self.d[1]) % high

    def beta(self, a, b):
        return realize_all(self.d[2]) / 4.0


class FakeNp:
    def __init__(self, draws):
        outer = self

        class R:
            @staticmethod
            def default_rng(seed=None):
                outer.seeds.append(seed)
                return SeedRng(draws)

        self.random = R
        self.seeds = []


class VDS(KDDataset):
    def __init__(self, shapes):
        super().__init__()
        self.data = []
        for k, shp in enumerate(shapes):
            numel = 1
            for s in shp:
                numel *= s
            self.data.append((torch.arange(numel, dtype=torch.float32) + 1 + 10 * (k + 1)).reshape(shp))
        self.cls = list(range(len(shapes)))

    def __len__(self):
        return len(self.data)

    def getitem_x(self, idx, ctx=None):
        return self.data[idx][...]  # a view of the stored tensor, as indexing a tensor returns

    def getitem_class(self, idx, ctx=None):
        return self.cls[idx]

    def getshape_class(self):
        return (len(self.data),)


def pad_or_cut(x2, shape):
    out = torch.zeros(shape)
    sl = tuple(slice(0, min(a, b)) for a, b in zip(shape, x2.shape))
    out[sl] = x2[sl]
    return out


def body_mix(cfg, a, j, lam, i):
    """cfg = (shapes, unify, p, mode)"""
    shapes, unify, p, mode = cfg
    a, j, lam, i = realize_all([a, j, lam, i])  # realised once, up front (value enumeration by the solver)
    try:
        ds = VDS(shapes)
        orig = [t.clone() for t in ds.data]
        n = len(ds)
        fake = FakeNp([a, j, lam])
        with patched(MW, np=fake):
            seed = 0 if p == 1.0 else 7  # seed 0 is a legitimate seed
            w = KDMixWrapper(ds, mixup_p=p, mixup_alpha=1.0, mixup_unify_shapes_mode=unify, seed=seed)
            m = ModeWrapper(w, mode=mode)
            i = realize_all(i)
            r1 = m[i]
            r1 = tuple(t.clone() for t in r1) if isinstance(r1, tuple) else r1.clone()
            r2 = m[i]
    except Exception as e:
        return fail("exception " + type(e).__name__)
    for k in range(n):
        if not torch.equal(ds.data[k], orig[k]):
            return fail("the wrapped dataset was modified by an access")
    items = mode.split(" ")
    v1 = dict(zip(items, r1 if isinstance(r1, tuple) else (r1,)))
    v2 = dict(zip(items, r2 if isinstance(r2, tuple) else (r2,)))
    for it in items:
        if not torch.equal(v1[it], v2[it]):
            return fail("repeated request for the same index differs")
    av = min(realize_all(a) / 4.0, 0.999)
    jj = realize_all(j) % n
    lv = realize_all(lam) / 4.0
    onehot = lambda c: torch.eye(n)[c]
    if av > p:
        want_x, want_c = orig[i], onehot(i)
    else:
        x2 = orig[jj] if unify is None else pad_or_cut(orig[jj], orig[i].shape)
        want_x = lv * orig[i] + (1 - lv) * x2
        want_c = lv * onehot(i) + (1 - lv) * onehot(jj)
    if p == 1.0 and av > p:
        return fail("harness: probability-one configuration must always mix")
    if "x" in v1 and (v1["x"].shape != want_x.shape or not torch.allclose(v1["x"], want_x, atol=1e-5)):
        return fail("data is not the untouched sample / the convex combination with the drawn partner and weight")
    if "class" in v1:
        c = v1["class"]
        if c.shape != want_c.shape or not torch.allclose(c, want_c, atol=1e-5):
            return fail("label is not mixed with the same partner and weight as the data")
        if float(c.min()) < -1e-6 or abs(float(c.sum()) - 1.0) > 1e-5:
            return fail("label vector not non-negative / does not sum to one")
    if any(s is None or s != seed + i for s in fake.seeds):
        return fail("per-sample generator not seeded with seed + index")
    return True


def conditions(tier, rng):
    H = "harness.c11"
    to = 900
    conds = []
    shape_sets = [(((3,), (3,), (3,)), None), (((3,), (2,), (4,)), "pad_or_cut_end"), (((2, 2), (2, 2), (2, 2)), None), (((2, 2), (1, 3), (3, 1)), "pad_or_cut_end")]
    for shapes, unify in shape_sets:
        for p in (0.5, 1.0):
            for mode in ("x class", "class x", "x", "class"):
                conds.append(Cond(
                    name=f"mix[shapes={shapes};unify={unify};p={p};{mode}]", harness=H, body="body_mix", cfg=(shapes, unify, p, mode),
                    params=[("a", "int"), ("j", "int"), ("lam", "int"), ("i", "int")],
                    pre=["a in (0, 1, 3)", "0 <= j < 3", "lam in (0, 1, 2, 4)", "0 <= i < 3"], timeout=to, group="sample-mix", cost=108,
                    bounds="apply and beta on the grid k/4, partner and requested index symbolic (realised at the tensor boundary)"))
    return conds
