"""C20 - global-to-local copy is crash-safe and idempotent (E1 + FakeFS)."""
import json
import os
import shutil as real_shutil
import tempfile
import zipfile as real_zipfile
from pathlib import Path as RealPath

from vf.common import fail, patched
from vf.engine import Cond
import kappadata.copying.folder as F
import kappadata.copying.image_folder as IF
import kappadata.copying.copying_utils as CU

MANIFEST_LEVEL = "One inductive step of the marker protocol, decided by the solver: the destination's pre-state is symbolic and only assumed to satisfy the protocol invariant, one invocation of the real copy function runs on a file-system model in which every primitive operation is a step, the crash step and the visiting orders of rmtree/copytree/parallel unzip are symbolic; after a crash the invariant must hold again (so histories of any number of interrupted attempts are covered), after a normal return the tree must equal the source and the result must be truthful. No unit test interrupts a copy."
MANIFEST_NOTE = "Trusted: CrossHair/z3 and the FakeFS model (checked differentially against the real file system on every run); a file write is atomic except for the modelled 'partial' state; concurrent copies into one destination are outside."
MANIFEST_TECHNIQUE = "bounded symbolic execution of the real code (CrossHair on z3) over a symbolic pre-state, crash point and visiting orders; inductive invariant of the marker protocol; concrete replay of counterexamples"
PROPERTY = "C20"
ENCODED = [
    "kappadata.copying.folder:copy_folder_from_global_to_local",
    "kappadata.copying.folder:unzip_batched_zips",
    "kappadata.copying.folder:_check_src_path",
    "kappadata.copying.image_folder:copy_imagefolder_from_global_to_local",
    "kappadata.copying.image_folder:unzip_imagefolder_classwise",
    "kappadata.copying.copying_utils:folder_contains_mostly_zips",
    "kappadata.copying.copying_utils:run_unzip_jobs",
    "kappadata.copying.copying_utils:unzip",
]
STUBS = [
    "FakeFS (P as Path, open, shutil.rmtree/copytree, zipfile.ZipFile.extractall, os.listdir, joblib.Parallel/delayed): every primitive operation (mkdir, create, write, unlink, rmdir) is one step; rmtree/copytree/extractall are non-atomic; rmtree, copytree and parallel unzip jobs visit entries in a symbolic order; a crash is 'the process dies before step k'",
    "log(): no-op",
]
ASSUMPTIONS = [
    "Inv (pre-state): a user-provided folder carries no marker files; an automatically created destination always carries the start marker; an end marker implies the start marker and a complete tree",
    "a file is absent, partial or complete; creating a file and writing it are two steps (an empty marker file counts as existing, as Path.exists does)",
    "zip members are extracted in archive order",
]
OUTSIDE = ["concurrent copies into the same destination", "partial writes finer than one 'partial' state per file", "source trees other than the two-file tree (one top-level file, one file in a sub-directory)"]
BOUNDS = {"quick": "2 source files (one nested), 3 source formats (+ the 1-zip-among-3-entries boundary of the 'mostly zips' rule) x relative_path on/off x workers {0,2} x {folder, imagefolder}; pre-state kind enumerated (absent | user | auto-incomplete | auto-complete) with symbolic marker/file states, symbolic crash step 0..30, symbolic visiting orders",
          "thorough": "same space, plus a second invocation after the crash (two-step histories) checked end-to-end"}

KNOWN_CLASSES = set()
IGNORE_KNOWN = False
try:
    _kf = json.load(open(os.path.join(os.path.dirname(os.path.dirname(os.path.abspath(__file__))), "known_findings.json")))
    KNOWN_CLASSES = {e["class"] for e in _kf["findings"] if e.get("property") == "C20" and e.get("status") == "known"}
except Exception:
    pass


class Crash(BaseException):
    pass


class FS:
    """dict-backed file system; content tokens: 'partial' | ('data', x) | ('zip', ((rel, content), ...))"""

    def __init__(self, crash_at, orders):
        self.files = {}
        self.dirs = set()
        self.ops = 0
        self.crash_at = crash_at
        self.orders = list(orders)
        self.trace = []
        self.mutations = 0

    def step(self, label):
        self.ops += 1
        if self.ops == self.crash_at:
            raise Crash(label)
        self.trace.append(label)
        self.mutations += 1

    def order(self, items):
        """arbitrary visiting order chosen by the next symbolic order value (Lehmer decoding)"""
        items = sorted(items)
        code = self.orders.pop(0) if self.orders else 0
        out = []
        while items:
            k = len(items)
            j = code % k
            code = code // k
            out.append(items.pop(j))
        return out

    # primitives
    def exists(self, p):
        return p in self.files or p in self.dirs

    def is_dir(self, p):
        return p in self.dirs

    def mkdir(self, p):
        self.step("mkdir " + p)
        self.dirs.add(p)

    def create(self, p):
        self.step("create " + p)
        self.files[p] = "partial"

    def write(self, p, content):
        self.step("write " + p)
        self.files[p] = content

    def unlink(self, p):
        self.step("unlink " + p)
        del self.files[p]

    def rmdir(self, p):
        self.step("rmdir " + p)
        self.dirs.discard(p)

    def listdir(self, p):
        pre = p + "/"
        names = {k[len(pre):].split("/")[0] for k in list(self.files) + list(self.dirs) if k.startswith(pre)}
        return sorted(names)


FSX = None


class P:
    def __init__(self, s):
        self.s = s.s if isinstance(s, P) else str(s)

    def expanduser(self):
        return self

    def __truediv__(self, o):
        return P(self.s + "/" + (o.s if isinstance(o, P) else str(o)))

    def exists(self):
        return FSX.exists(self.s)

    def is_dir(self):
        return FSX.is_dir(self.s)

    def with_suffix(self, suf):
        head, _, tail = self.s.rpartition("/")
        base = tail.rsplit(".", 1)[0] if "." in tail else tail
        return P((head + "/" if head else "") + base + suf)

    @property
    def name(self):
        return self.s.rsplit("/", 1)[-1]

    @property
    def parent(self):
        return P(self.s.rsplit("/", 1)[0])

    def mkdir(self, parents=False, exist_ok=False):
        if FSX.exists(self.s):
            if exist_ok and FSX.is_dir(self.s):
                return
            raise FileExistsError(self.s)
        parent = self.s.rsplit("/", 1)[0] if "/" in self.s else None
        if parent is not None and not FSX.exists(parent):
            if not parents:
                raise FileNotFoundError(self.s)
            P(parent).mkdir(parents=True, exist_ok=True)
        FSX.mkdir(self.s)

    def __fspath__(self):
        return self.s

    def __str__(self):
        return self.s


def _s(p):
    return p.s if isinstance(p, P) else str(p)


class _File:
    def __init__(self, p):
        self.p = p

    def __enter__(self):
        FSX.create(self.p)
        return self

    def write(self, txt):
        FSX.write(self.p, ("data", "marker"))

    def __exit__(self, *a):
        return False


def fake_open(p, mode="r"):
    assert mode == "w"
    return _File(_s(p))


def _ensure_dirs(path):
    parts = path.split("/")[:-1]
    cur = ""
    for part in parts:
        cur = part if not cur else cur + "/" + part
        if cur not in FSX.dirs:
            FSX.mkdir(cur)


def _write_file(path, content):
    _ensure_dirs(path)
    FSX.create(path)
    FSX.write(path, content)


class _Shutil:
    @staticmethod
    def rmtree(p):
        root = _s(p)
        pre = root + "/"
        for f in FSX.order([k for k in FSX.files if k.startswith(pre)]):
            FSX.unlink(f)
        for d in sorted([d for d in FSX.dirs if d.startswith(pre)], key=lambda d: -len(d)):
            FSX.rmdir(d)
        FSX.rmdir(root)

    @staticmethod
    def copytree(src, dst, dirs_exist_ok=False):
        s, d = _s(src), _s(dst)
        if FSX.exists(d) and not dirs_exist_ok:
            raise FileExistsError(d)
        if not FSX.exists(d):
            FSX.mkdir(d)
        pre = s + "/"
        for f in FSX.order([k for k in FSX.files if k.startswith(pre)]):
            _write_file(d + "/" + f[len(pre):], FSX.files[f])


class _ZipFile:
    def __init__(self, p, *a, **k):
        self.p = _s(p)
        c = FSX.files.get(self.p)
        if not (isinstance(c, tuple) and c[0] == "zip"):
            raise FileNotFoundError(self.p)
        self.members = c[1]

    def __enter__(self):
        return self

    def __exit__(self, *a):
        return False

    def extractall(self, dst):
        d = _s(dst)
        if not FSX.exists(d):
            P(d).mkdir(parents=True)
        for rel, content in self.members:
            _write_file(d + "/" + rel, content)


class _Zipfile:
    ZipFile = _ZipFile


class _OS:
    @staticmethod
    def listdir(p):
        return FSX.listdir(_s(p))


class _Joblib:
    @staticmethod
    def delayed(fn):
        return lambda *a: (fn, a)

    class Parallel:
        def __init__(self, n_jobs=None):
            pass

        def __call__(self, jobs):
            jobs = list(jobs)
            idx = FSX.order(list(range(len(jobs))))
            return [jobs[i][0](*jobs[i][1]) for i in idx]


def _nolog(*a, **k):
    return None


A = ("data", "A")
B = ("data", "B")
SRC_FILES = (("a", A), ("sub/b", B))


def setup_source(fs, fmt, rel, which):
    src = "g/rel" if rel else "g"
    if rel or fmt != "zip":
        fs.dirs.add("g")
    if fmt == "raw":
        fs.dirs.add(src)
        fs.dirs.add(src + "/sub")
        fs.files[src + "/a"] = A
        fs.files[src + "/sub/b"] = B
        expected = {"a": A, "sub/b": B}
    elif fmt == "zip":
        fs.files[src + ".zip"] = ("zip", SRC_FILES)
        expected = {"a": A, "sub/b": B}
    elif fmt == "zipsb":
        # boundary of the 'mostly zips' rule: one zip among three entries (1 >= 3 // 2)
        fs.dirs.add(src)
        fs.files[src + "/batch_0.zip"] = ("zip", SRC_FILES)
        fs.files[src + "/README"] = ("data", "readme")
        fs.files[src + "/LICENSE"] = ("data", "license")
        if which == "folder":
            expected = {"a": A, "sub/b": B}
        else:
            expected = {"batch_0/a": A, "batch_0/sub/b": B}
    else:
        fs.dirs.add(src)
        fs.files[src + "/batch_0.zip"] = ("zip", (("a", A),))
        fs.files[src + "/batch_1.zip"] = ("zip", (("sub/b", B),))
        fs.files[src + "/README"] = ("data", "readme")
        if which == "folder":
            expected = {"a": A, "sub/b": B}
        else:  # class-wise: every zip into its own folder
            expected = {"batch_0/a": A, "batch_1/sub/b": B}
    return expected


def body_kind(cfg, start, end, f1, f2, crash_at, o0, o1):
    """body_step with the kind of pre-state enumerated: cfg = (which, fmt, rel, workers, prekind)"""
    which, fmt, rel, workers, prekind = cfg
    dst_exists = prekind != "absent"
    user = prekind == "user"
    return body_step((which, fmt, rel, workers), dst_exists, start, end, f1, f2, user, crash_at, o0, o1)


PREKINDS = {
    # kind -> preconditions on (start, end, f1, f2)
    "absent": ["start == 0", "end == 0", "f1 == 0", "f2 == 0"],
    "user": ["start == 0", "end == 0", "0 <= f1 <= 2", "0 <= f2 <= 2"],
    "auto-incomplete": ["1 <= start <= 2", "end == 0", "0 <= f1 <= 2", "0 <= f2 <= 2"],
    "auto-complete": ["1 <= start <= 2", "1 <= end <= 2", "f1 == 2", "f2 == 2"],
}


def body_step(cfg, dst_exists, start, end, f1, f2, user, crash_at, o0, o1):
    """one invocation from an arbitrary pre-state satisfying Inv.
    cfg = (which, fmt, rel, workers); start/end in {0 absent, 1 created-empty, 2 written};
    f1/f2 in {0 absent, 1 partial, 2 complete}"""
    global FSX
    which, fmt, rel, workers = cfg
    # ---- Inv: assumed representation invariant of the destination ----
    if not dst_exists and (start or end or f1 or f2 or user):
        return True
    if user and (start or end):
        return True
    if dst_exists and not user and not start:
        return True
    if end and not (start and f1 == 2 and f2 == 2):
        return True
    fs = FS(crash_at, [o0, o1])
    FSX = fs
    expected = setup_source(fs, fmt, rel, which)
    names = sorted(expected)
    dst = "l/rel" if rel else "l"
    if rel:
        fs.dirs.add("l")
    if dst_exists:
        fs.dirs.add(dst)
        mk = {1: "partial", 2: ("data", "marker")}
        if start:
            fs.files[dst + "/autocopy_start.txt"] = mk[start]
        if end:
            fs.files[dst + "/autocopy_end.txt"] = mk[end]
        for st, nm in ((f1, names[0]), (f2, names[1])):
            if st:
                for k in range(1, len(nm.split("/"))):
                    fs.dirs.add(dst + "/" + "/".join(nm.split("/")[:k]))
                fs.files[dst + "/" + nm] = "partial" if st == 1 else (("data", "user") if user else expected[nm])
    before_files = dict(fs.files)
    before_dirs = set(fs.dirs)
    mod = F if which == "folder" else IF
    fn = F.copy_folder_from_global_to_local if which == "folder" else IF.copy_imagefolder_from_global_to_local
    crashed = None
    res = None
    try:
        with patched(mod, Path=P, open=fake_open, shutil=_Shutil, zipfile=_Zipfile, os=_OS, log=_nolog), \
                patched(CU, os=_OS, zipfile=_Zipfile, joblib=_Joblib):
            res = fn(P("g"), P("l"), relative_path="rel" if rel else None, num_workers=workers)
    except Crash as c:
        crashed = c.args[0]
    except Exception as e:
        return fail("exception " + type(e).__name__)
    s_ex = (dst + "/autocopy_start.txt") in fs.files
    e_ex = (dst + "/autocopy_end.txt") in fs.files
    pre = dst + "/"
    tree = {k[len(pre):]: v for k, v in fs.files.items() if k.startswith(pre) and not k.endswith("autocopy_start.txt") and not k.endswith("autocopy_end.txt")}
    if crashed is not None:
        if user:
            return (fs.files == before_files and fs.dirs == before_dirs) or fail("user folder modified before crash at: " + crashed)
        # Inv must be re-established, otherwise a later invocation mistakes the folder for user data
        # or for a complete copy
        if dst in fs.dirs and not s_ex:
            if crashed.startswith("create ") and crashed.endswith("autocopy_start.txt"):
                cls = "markerless:crash-between-mkdir-and-start-marker"
            elif crashed.startswith("unlink ") or crashed.startswith("rmdir "):
                cls = "markerless:crash-inside-rmtree-of-incomplete-copy"
            else:
                cls = "markerless:other"
            if not IGNORE_KNOWN and cls in KNOWN_CLASSES:
                return True
            return fail(cls + " (marker-less automatic folder after crash before: " + crashed + ")")
        if e_ex and tree != expected:
            return fail("end marker on an incomplete tree after crash before: " + crashed)
        return True
    # normal return
    if user:
        if not (fs.files == before_files and fs.dirs == before_dirs):
            return fail("user-provided folder was modified")
        if res.was_copied or res.was_deleted:
            return fail("result claims a copy for a user-provided folder")
        return True
    if tree != expected:
        return fail("local tree differs from the source after a normal return")
    if not (s_ex and e_ex):
        return fail("markers missing after a normal return")
    if end:  # a completed automatic copy: never deleted or redone
        if fs.mutations != 0:
            return fail("completed copy was modified")
        if res.was_copied or res.was_deleted:
            return fail("result claims work on a completed copy")
        return True
    if not res.was_copied:
        return fail("result denies the copy")
    if res.was_deleted != bool(dst_exists):
        return fail("was_deleted untruthful")
    if which == "folder":
        if res.source_format != ("zips" if fmt == "zipsb" else fmt):
            return fail("source_format untruthful")
    else:
        if res.was_zip != (fmt == "zip") or res.was_zip_classwise != (fmt in ("zips", "zipsb")):
            return fail("was_zip flags untruthful")
    return True


def conditions(tier, rng):
    H = "harness.c20"
    q = tier == "quick"
    to = 600 if q else 1800
    conds = []
    for which in ("folder", "imagefolder"):
        for fmt in ("raw", "zip", "zips", "zipsb"):
            for rel in ((False, True) if fmt != "zipsb" else (True,)):
                for workers in ((0, 2) if fmt == "zips" else (0,)):
                    for pk, pre in PREKINDS.items():
                        # the file states of an incomplete copy are enumerated as well (9 combinations):
                        # with them symbolic the rmtree-order x crash-point tree has > 1500 paths
                        fstates = [(a, b) for a in range(3) for b in range(3)] if pk == "auto-incomplete" else [None]
                        if q and which == "imagefolder" and len(fstates) > 1:
                            fstates = rng.sample(fstates, 3)  # quick tier: the twin gets a sample, thorough all
                        for fsx in fstates:
                            pre2 = list(pre)
                            nm = pk
                            nfiles = 2
                            if fsx is not None:
                                pre2 = ["1 <= start <= 2", "end == 0", f"f1 == {fsx[0]}", f"f2 == {fsx[1]}"]
                                nm = f"{pk}:{fsx[0]}{fsx[1]}"
                                nfiles = (fsx[0] > 0) + (fsx[1] > 0)
                            norders = {0: 1, 1: 2, 2: 6}[nfiles] if pk == "auto-incomplete" else 1
                            conds.append(Cond(
                                name=f"step[{which};{fmt};rel={int(rel)};workers={workers};pre={nm}]", harness=H, body="body_kind",
                                cfg=(which, fmt, rel, workers, pk),
                                params=[("start", "int"), ("end", "int"), ("f1", "int"), ("f2", "int"), ("crash_at", "int"), ("o0", "int"), ("o1", "int")],
                                pre=pre2 + ["0 <= crash_at <= 30", f"0 <= o0 < {norders}", "0 <= o1 < 2"],
                                timeout=to, group="inductive-invocation", cost=norders * 3,
                                bounds="pre-state kind enumerated, marker/file states symbolic under Inv (file states of an incomplete copy enumerated), crash step 0..30 (0 = no crash; the longest run has fewer steps), every rmtree order of the present entries, copy/unzip order among 2"))
    return conds


# ------------------------------------------------------------------------------------------------
# differential self-test of the FakeFS composite operations against the real file system
# ------------------------------------------------------------------------------------------------
def _real_tree(root):
    out = {}
    for dp, dn, fn in os.walk(root):
        for f in fn:
            p = os.path.join(dp, f)
            out[os.path.relpath(p, root)] = open(p, "rb").read()
    return out


def selftest(rng):
    """the model's end states of copytree / extractall / rmtree / mkdir(parents) / with_suffix / listdir
    agree with the real pathlib/shutil/zipfile on concrete trees"""
    global FSX
    n = 0
    failed = []
    for trial in range(20):
        files = {}
        for k in range(rng.randint(1, 4)):
            depth = rng.randint(0, 2)
            rel = "/".join([f"d{rng.randint(0, 1)}" for _ in range(depth)] + [f"f{k}"])
            files[rel] = bytes([rng.randint(65, 90)])
        tmp = tempfile.mkdtemp(prefix="vf_c20_")
        try:
            src = os.path.join(tmp, "src")
            for rel, c in files.items():
                os.makedirs(os.path.dirname(os.path.join(src, rel)), exist_ok=True)
                open(os.path.join(src, rel), "wb").write(c)
            os.makedirs(os.path.join(tmp, "dst"))
            real_shutil.copytree(src, os.path.join(tmp, "dst"), dirs_exist_ok=True)
            zp = os.path.join(tmp, "z.zip")
            with real_zipfile.ZipFile(zp, "w") as z:
                for rel, c in files.items():
                    z.writestr(rel, c)
            with real_zipfile.ZipFile(zp) as z:
                z.extractall(os.path.join(tmp, "dstz"))
            fs = FS(0, [rng.randint(0, 23), rng.randint(0, 23)])
            FSX = fs
            fs.dirs.add("src")
            for rel, c in files.items():
                for k in range(1, len(rel.split("/"))):
                    fs.dirs.add("src/" + "/".join(rel.split("/")[:k]))
                fs.files["src/" + rel] = ("data", c)
            fs.dirs.add("dst")
            _Shutil.copytree(P("src"), P("dst"), dirs_exist_ok=True)
            got = {k[4:]: v[1] for k, v in fs.files.items() if k.startswith("dst/")}
            n += 1
            if got != _real_tree(os.path.join(tmp, "dst")):
                failed.append(f"copytree model differs on {files}")
            fs.files["z.zip"] = ("zip", tuple((rel, ("data", c)) for rel, c in files.items()))
            _ZipFile(P("z.zip")).extractall(P("dstz"))
            got = {k[5:]: v[1] for k, v in fs.files.items() if k.startswith("dstz/")}
            n += 1
            if got != _real_tree(os.path.join(tmp, "dstz")):
                failed.append(f"extractall model differs on {files}")
            n += 1
            if sorted(os.listdir(src)) != fs.listdir("src"):
                failed.append(f"listdir model differs on {files}")
            _Shutil.rmtree(P("dst"))
            real_shutil.rmtree(os.path.join(tmp, "dst"))
            n += 1
            if fs.exists("dst") != os.path.exists(os.path.join(tmp, "dst")) or any(k.startswith("dst/") for k in fs.files):
                failed.append("rmtree model differs")
        finally:
            real_shutil.rmtree(tmp, ignore_errors=True)
    for s in ("a/b", "a/b.zip", "a.b/c", "x"):
        n += 1
        if P(s).with_suffix(".zip").s != str(RealPath(s).with_suffix(".zip")):
            failed.append(f"with_suffix model differs on {s}")
        n += 1
        if P(s).name != RealPath(s).name:
            failed.append(f"name model differs on {s}")
    return n, failed
