"""C03 - each dataset-manipulation wrapper selects exactly the promised samples."""
import numpy as np
import torch

from vf.common import fail, patched, Realizing, realize_all
import contextlib
import importlib
from vf.engine import Cond
from kappadata.datasets.kd_dataset import KDDataset
import kappadata.wrappers.dataset_wrappers.oversampling_wrapper as OW
from kappadata.wrappers.dataset_wrappers.class_filter_wrapper import ClassFilterWrapper
from kappadata.wrappers.dataset_wrappers.percent_filter_wrapper import PercentFilterWrapper
from kappadata.wrappers.dataset_wrappers.subset_wrapper import SubsetWrapper
from kappadata.wrappers.dataset_wrappers.shuffle_wrapper import ShuffleWrapper
from kappadata.wrappers.dataset_wrappers.repeat_wrapper import RepeatWrapper
from kappadata.wrappers.dataset_wrappers.oversampling_wrapper import OversamplingWrapper
from kappadata.wrappers.dataset_wrappers.sort_by_class_wrapper import SortByClassWrapper
from kappadata.wrappers.dataset_wrappers.intra_class_shuffle_wrapper import IntraClassShuffleWrapper
from kappadata.wrappers.dataset_wrappers.fewshot_wrapper import FewshotWrapper
from kappadata.wrappers.dataset_wrappers.classwise_subset_wrapper import ClasswiseSubsetWrapper

MANIFEST_LEVEL = "For each of the ten selection wrappers the real constructor is executed symbolically: index / percent bounds (incl. None, 0, 1, values beyond the dataset and percents off integer boundaries) are symbolic and decided by the solver; class layouts of enumerated length are symbolic label vectors that CrossHair realises where they enter numpy/torch (value enumeration through the solver, exhaustive for the stated label range). The oracle is the documented selection (contiguity, partition of complementary ranges, permutation / stability / per-class amounts, termination, seed-only dependence). All example tests of these wrappers failed to construct before the KDSubset repair."
MANIFEST_NOTE = "Trusted: CrossHair/z3, numpy/torch kernels behind the realisation boundary; floats are reals (int(p*n) in binary64 is covered by the separate SMT lemma 0<=int(p*n)<=n). Outside: datasets larger than the bound, name-based class filters."
MANIFEST_TECHNIQUE = "bounded symbolic execution of the real constructors (CrossHair on z3), symbolic bounds/percents/labels; IEEE-754 lemma for int(p*n) by z3 and cvc5"
PROPERTY = "C03"
ENCODED = [
    "kappadata.wrappers.dataset_wrappers.class_filter_wrapper:ClassFilterWrapper.__init__",
    "kappadata.wrappers.dataset_wrappers.percent_filter_wrapper:PercentFilterWrapper.__init__",
    "kappadata.wrappers.dataset_wrappers.subset_wrapper:SubsetWrapper.__init__",
    "kappadata.wrappers.dataset_wrappers.shuffle_wrapper:ShuffleWrapper.__init__",
    "kappadata.wrappers.dataset_wrappers.repeat_wrapper:RepeatWrapper.__init__",
    "kappadata.wrappers.dataset_wrappers.oversampling_wrapper:OversamplingWrapper.__init__",
    "kappadata.wrappers.dataset_wrappers.sort_by_class_wrapper:SortByClassWrapper.__init__",
    "kappadata.wrappers.dataset_wrappers.intra_class_shuffle_wrapper:IntraClassShuffleWrapper.__init__",
    "kappadata.wrappers.dataset_wrappers.fewshot_wrapper:FewshotWrapper.__init__",
    "kappadata.wrappers.dataset_wrappers.classwise_subset_wrapper:ClasswiseSubsetWrapper.__init__",
    "kappadata.utils.class_counts:get_class_counts",
    "kappadata.utils.class_counts:get_class_counts_and_indices",
]
STUBS = ["CDS: leaf dataset whose x is a unique sample id and whose class list is a vector of symbolic labels",
         "CountingTorch: the torch module seen by oversampling_wrapper with arange() call counting (raises NonTermination after 64 calls)"]
ASSUMPTIONS = ["label vectors are realised value by value at the numpy/torch boundary (exhaustive for labels in [0,3))", "percents are taken from the grid k/24, all other scalar arguments are realised before the constructor is called (value enumeration through the solver; the constructors' arithmetic mixes them with numpy/torch objects, which cannot carry symbolic values)"]
OUTSIDE = ["datasets longer than the bound", "valid_class_names / invalid_class_names", "statistical quality of shuffles", "monotonicity of int(p*n) under binary64 rounding"]
BOUNDS = {"quick": "dataset length n<=3 (enumerated) with enumerated label prefix + one symbolic label in [0,3) and class count C in {max+1, max+2}; start/end index symbolic in [-1..n+2] or None; percents on the grid k/12 (k symbolic; k/24 in the thorough tier; k/4 resp. k/8 for the class-wise subset); repetitions/min_size<=6; shots<=3; seeds {0,7}",
          "thorough": "n<=4, same symbolic ranges, seeds {0,3,7}"}


_WRAPPER_MODULES = [importlib.import_module("kappadata.wrappers.dataset_wrappers." + m) for m in (
    "class_filter_wrapper", "percent_filter_wrapper", "subset_wrapper", "shuffle_wrapper", "repeat_wrapper",
    "sort_by_class_wrapper", "intra_class_shuffle_wrapper", "fewshot_wrapper", "classwise_subset_wrapper")]
def _range(*a):
    # CrossHair's model of range() rejects numpy integers (TypeError); plain ints are equivalent
    import operator
    return range(*[operator.index(x) for x in a])


_RNP = Realizing(np)
_RTORCH = Realizing(torch)


@contextlib.contextmanager
def library_boundary():
    """numpy/torch as seen by the wrapper modules realise their arguments at the call"""
    with contextlib.ExitStack() as st:
        for m in _WRAPPER_MODULES:
            names = {"range": _range}
            if "np" in m.__dict__:
                names["np"] = _RNP
            if "torch" in m.__dict__:
                names["torch"] = _RTORCH
            st.enter_context(patched(m, **names))
        yield


def boundary(fn):
    def wrapped(*a):
        with library_boundary():
            return fn(*a)
    wrapped.__name__ = fn.__name__
    wrapped.__doc__ = fn.__doc__
    return wrapped


class NonTermination(Exception):
    pass


class CDS(KDDataset):
    def __init__(self, classes, C):
        super().__init__()
        self.classes = realize_all(list(classes))  # labels enter numpy/torch: realised here
        self.C = realize_all(C)

    def __len__(self):
        return len(self.classes)

    def getitem_x(self, idx, ctx=None):
        return ("x", int(idx))

    def getitem_class(self, idx, ctx=None):
        return self.classes[idx]

    def getall_class(self):
        return list(self.classes)

    def getshape_class(self):
        return (self.C,)


class CountingTorch:
    def __init__(self):
        self.n = 0

    def arange(self, *a, **k):
        self.n += 1
        if self.n > 64:
            raise NonTermination()
        return torch.arange(*a, **k)

    def __getattr__(self, item):
        return getattr(torch, item)


def selection(w):
    return [w.getitem_x(k)[1] for k in range(len(w))]


def opt(v):
    return None if v == -9 else v


# ---------------------------------------------------------------------------------------------
@boundary
def body_subset_index(cfg, start, end):
    """SubsetWrapper / complementary ranges by index. cfg = n"""
    n = cfg
    ds = CDS([0] * n, 1)
    s, e = opt(realize_all(start)), opt(realize_all(end))
    try:
        lo = 0 if s is None else s
        hi = n if e is None else min(e, n)
        if s is None and e is None:
            return True
        if lo > hi:
            try:
                SubsetWrapper(ds, start_index=s, end_index=e)
            except AssertionError:
                return True
            return fail("start > end accepted")
        got = selection(SubsetWrapper(ds, start_index=s, end_index=e))
        if got != list(range(lo, hi)):
            return fail("index range is not [start, min(end, n))")
        if e is not None and e >= 0:
            # complementary ranges partition the dataset
            a = selection(SubsetWrapper(ds, end_index=e))
            b = selection(SubsetWrapper(ds, start_index=min(e, n)))
            if a + b != list(range(n)):
                return fail("complementary index ranges do not partition the dataset")
    except Exception as ex:
        return fail("exception " + type(ex).__name__)
    return True


GRID = 24  # percents are k/24: contains 0, 1, every boundary j/n for n <= 4 and points strictly between them


@boundary
def body_subset_percent(cfg, kp, kq):
    """SubsetWrapper(start_percent / end_percent) and PercentFilterWrapper. cfg = (n, which, ceil_from, ceil_to)"""
    n, which, cf, ct = cfg
    p = realize_all(kp) / GRID
    q = realize_all(kq) / GRID
    ds = CDS([0] * n, 1)
    try:
        if which == "subset":
            if p > q:
                try:
                    SubsetWrapper(ds, start_percent=p, end_percent=q)
                except AssertionError:
                    return True
                return fail("start_percent > end_percent accepted")
            got = selection(SubsetWrapper(ds, start_percent=p, end_percent=q))
            lo, hi = int(p * n), int(q * n)
            a = selection(SubsetWrapper(ds, start_percent=0.0, end_percent=p))
            b = selection(SubsetWrapper(ds, start_percent=p, end_percent=1.0))
        else:
            w = PercentFilterWrapper(ds, from_percent=p, to_percent=q, ceil_from_index=cf, ceil_to_index=ct)
            got = selection(w)
            lo = ceil_(p * n) if cf else int(p * n)
            hi = ceil_(q * n) if ct else int(q * n)
            a = selection(PercentFilterWrapper(ds, to_percent=p, ceil_to_index=cf))
            b = selection(PercentFilterWrapper(ds, from_percent=p, ceil_from_index=cf))
        if got != list(range(lo, hi)):
            return fail("percent range is not [idx(from), idx(to))")
        if a + b != list(range(n)):
            return fail("complementary percent ranges do not partition the dataset")
    except Exception as ex:
        return fail("exception " + type(ex).__name__)
    return True


def ceil_(v):
    c = int(v)
    return c if c == v else c + 1


def labels_of(cfg_L, ls):
    """cfg_L is the concrete prefix of the label vector; the last label is the symbolic argument"""
    return list(cfg_L) + realize_all(list(ls[:1]))


@boundary
def body_class_filter(cfg, v0, v1, *ls):
    """cfg = (L, invert)"""
    L, invert = cfg
    cls = labels_of(L, ls)
    L = len(cls)
    ds = CDS(cls, 3)
    v0, v1 = realize_all(v0), realize_all(v1)
    try:
        if invert:
            got = selection(ClassFilterWrapper(ds, invalid_classes=[v0, v1]))
            want = [i for i in range(L) if cls[i] != v0 and cls[i] != v1]
        else:
            got = selection(ClassFilterWrapper(ds, valid_classes=[v0, v1]))
            want = [i for i in range(L) if cls[i] == v0 or cls[i] == v1]
    except Exception as ex:
        return fail("exception " + type(ex).__name__)
    return got == want or fail("class filter does not keep exactly the allowed classes in original order")


def is_perm(sel, n):
    return sorted(sel) == list(range(n))


@boundary
def body_perms(cfg, *ls):
    """shuffle / sort-by-class / intra-class shuffle. cfg = (L, extraC, seed, which)"""
    L, extraC, seed, which = cfg
    cls = labels_of(L, ls)
    L = len(cls)
    C = max(cls) + 1 + extraC
    ds = CDS(cls, C)
    try:
        np.random.seed(1)
        torch.manual_seed(1)
        if which == "shuffle":
            a = selection(ShuffleWrapper(ds, seed=seed))
        elif which == "sort":
            a = selection(SortByClassWrapper(ds))
        else:
            a = selection(IntraClassShuffleWrapper(ds, seed=seed))
        same = True
        for g in (2, 3):  # other global RNG states
            np.random.seed(g)
            torch.manual_seed(g)
            if which == "shuffle":
                b = selection(ShuffleWrapper(ds, seed=seed))
            elif which == "sort":
                b = selection(SortByClassWrapper(ds))
            else:
                b = selection(IntraClassShuffleWrapper(ds, seed=seed))
            same = same and a == b
    except Exception as ex:
        return fail("exception " + type(ex).__name__)
    if not is_perm(a, L):
        return fail(which + " is not a permutation")
    if not same:
        return fail("selection depends on global RNG state, not only on the seed")
    if which == "sort":
        key = [(cls[i], i) for i in a]
        if key != sorted(key):
            return fail("sort-by-class is not non-decreasing with stable ties")
    if which == "intra" and [cls[i] for i in a] != cls:
        return fail("intra-class shuffle changes the per-position class sequence")
    return True


@boundary
def body_repeat(cfg, r, use_min):
    """cfg = n ; r = repetitions or min_size"""
    n = cfg
    ds = CDS([0] * n, 1)
    r = realize_all(r)
    try:
        if use_min:
            got = selection(RepeatWrapper(ds, min_size=r))
            reps = (r + n - 1) // n
        else:
            got = selection(RepeatWrapper(ds, repetitions=r))
            reps = r
    except Exception as ex:
        return fail("exception " + type(ex).__name__)
    if got != list(range(n)) * reps:
        return fail("repeat is not whole round-robin copies reaching the requested size")
    return True


@boundary
def body_oversampling(cfg, *ls):
    """cfg = (L, extraC, mode)"""
    L, extraC, mode = cfg
    cls = labels_of(L, ls)
    L = len(cls)
    C = max(cls) + 1 + extraC
    ds = CDS(cls, C)
    ct = CountingTorch()
    try:
        with patched(OW, torch=ct):
            got = selection(OversamplingWrapper(ds, mode=mode))
    except NonTermination:
        return fail("construction does not terminate")
    except Exception as ex:
        return fail("exception " + type(ex).__name__)
    counts = [sum(1 for c in cls if c == k) for k in range(C)]
    mx = max(counts)
    for i in range(L):
        if i not in got:
            return fail("oversampling lost a sample")
    for k in range(C):
        have = sum(1 for i in got if cls[i] == k)
        if counts[k] == 0:
            if have != 0:
                return fail("samples of an absent class")
            continue
        want = (mx // counts[k]) * counts[k] if mode == "multiply" else mx
        if have != want:
            return fail("class does not reach the documented balance")
        per = [sum(1 for i in got if i == s) for s in range(L) if cls[s] == k]
        if max(per) - min(per) > 1:
            return fail("samples of a class are not reused evenly")
    return True


@boundary
def body_fewshot(cfg, shots, *ls):
    """cfg = (L, seed)"""
    L, seed = cfg
    cls = labels_of(L, ls)
    L = len(cls)
    shots = realize_all(shots)
    ds = CDS(cls, max(cls) + 1)
    try:
        np.random.seed(1)
        got = selection(FewshotWrapper(ds, num_shots=shots, seed=seed))
        np.random.seed(2)
        got2 = selection(FewshotWrapper(ds, num_shots=shots, seed=seed))
    except Exception as ex:
        return fail("exception " + type(ex).__name__)
    if got != got2:
        return fail("few-shot selection depends on global RNG state")
    if len(set(got)) != len(got):
        return fail("few-shot selection repeats a sample")
    for k in range(max(cls) + 1):
        cnt = sum(1 for c in cls if c == k)
        have = sum(1 for i in got if cls[i] == k)
        if have != min(shots, cnt):
            return fail("few-shot amount per class")
    return True


@boundary
def body_classwise_index(cfg, start, end, *ls):
    """cfg = (L, extraC)"""
    L, extraC = cfg
    cls = labels_of(L, ls)
    L = len(cls)
    C = max(cls) + 1 + extraC
    ds = CDS(cls, C)
    s, e = opt(realize_all(start)), opt(realize_all(end))
    if s is None and e is None:
        return True
    lo = 0 if s is None else s
    hi = L if e is None else min(e, L)
    if lo > hi:
        return True
    try:
        got = selection(ClasswiseSubsetWrapper(ds, start_index=s, end_index=e, check_enough_samples=False))
    except Exception as ex:
        return fail("exception " + type(ex).__name__)
    want = []
    for k in range(C):
        mine = [i for i in range(L) if cls[i] == k]
        want += mine[lo:hi]
    return got == want or fail("class-wise index subset takes the wrong amount per class")


@boundary
def body_classwise_percent(cfg, kp, kq, *ls):
    L, extraC = cfg
    p = realize_all(kp) / GRID
    q = realize_all(kq) / GRID
    cls = labels_of(L, ls)
    L = len(cls)
    C = max(cls) + 1 + extraC
    ds = CDS(cls, C)
    if p > q:
        return True
    try:
        got = selection(ClasswiseSubsetWrapper(ds, start_percent=p, end_percent=q))
    except Exception as ex:
        return fail("exception " + type(ex).__name__)
    want = []
    for k in range(C):
        mine = [i for i in range(L) if cls[i] == k]
        want += mine[int(p * len(mine)):int(q * len(mine))]
    return got == want or fail("class-wise percent subset takes the wrong amount per class")


def lab_params(L):
    return [(f"l{k}", "int") for k in range(L)], [f"0 <= l{k} < 3" for k in range(L)]


def conditions(tier, rng):
    H = "harness.c03"
    q = tier == "quick"
    to = 900 if q else 2400
    conds = []
    Ls = (1, 2, 3) if q else (1, 2, 3, 4)
    seeds = (0, 7) if q else (0, 3, 7)
    for n in Ls:
        conds.append(Cond(name=f"subset-index[n={n}]", harness=H, body="body_subset_index", cfg=n,
                          params=[("start", "int"), ("end", "int")],
                          pre=[f"start == -9 or 0 <= start <= {n + 2}", f"end == -9 or 0 <= end <= {n + 2}"], timeout=to, group="index-ranges", cost=3,
                          bounds="start/end symbolic in [0,n+2] or None (incl. 0 and beyond the dataset)"))
        for which, cf, ct in (("subset", False, False), ("percent", False, False), ("percent", True, False), ("percent", False, True), ("percent", True, True)):
            conds.append(Cond(name=f"percent-range[{which};n={n};ceil={int(cf)}{int(ct)}]", harness=H, body="body_subset_percent", cfg=(n, which, cf, ct),
                              params=[("kp", "int"), ("kq", "int")], pre=[f"0 <= kp <= {GRID}", f"0 <= kq <= {GRID}"] + (["kp % 2 == 0", "kq % 2 == 0"] if (q or n > 2) else []) + ([] if which == "subset" else ["kp <= kq"]),
                              timeout=to, group="percent-ranges", cost=60,
                              bounds="percents k/24 with k symbolic (0, 1, every boundary j/n and points between), realised before the call"))
        conds.append(Cond(name=f"repeat[n={n}]", harness=H, body="body_repeat", cfg=n, params=[("r", "int"), ("use_min", "bool")],
                          pre=["1 <= r <= 6"], timeout=to, group="repeat", cost=2, bounds="repetitions / min_size symbolic <= 6"))
    import itertools
    prefixes = []
    for L in Ls:
        allp = list(itertools.product(range(3), repeat=L - 1))
        prefixes += allp if len(allp) <= 3 else rng.sample(allp, 4 if q else 8)
    lp, lpre = [("l", "int")], ["0 <= l < 3"]
    # longer layouts for the two seeded shuffles (a 5-element shuffle under the global RNG differs
    # between global states with overwhelming probability, a 2-element one often does not)
    for pf in ((1, 1, 0, 2, 0),):
        tag = "".join(map(str, pf)) + "?"
        for seed in seeds:
            for which in ("shuffle", "intra"):
                conds.append(Cond(name=f"permutations[{which};{tag};absent=0;seed={seed}]", harness=H, body="body_perms", cfg=(pf, 0, seed, which),
                                  params=lp, pre=lpre, timeout=to, group="shuffle-sort-intraclass", cost=6, bounds="label prefix and seed enumerated, last label symbolic"))
    for pf in prefixes:
        tag = "".join(map(str, pf)) + "?"
        for invert in (False, True):
            conds.append(Cond(name=f"class-filter[{tag};invert={int(invert)}]", harness=H, body="body_class_filter", cfg=(pf, invert),
                              params=[("v0", "int"), ("v1", "int")] + lp, pre=["0 <= v0 < 4", "0 <= v1 < 4"] + lpre, timeout=to, group="class-filter", cost=48,
                              bounds="label prefix enumerated, last label and the two filter classes in [0,4) symbolic (incl. absent classes)"))
        for extraC in (0, 1):
            for seed in seeds[: (1 if extraC else len(seeds))]:
                for which in ("shuffle", "sort", "intra"):
                    if which == "sort" and seed != seeds[0]:
                        continue
                    conds.append(Cond(name=f"permutations[{which};{tag};absent={extraC};seed={seed}]", harness=H, body="body_perms", cfg=(pf, extraC, seed, which),
                                      params=lp, pre=lpre, timeout=to, group="shuffle-sort-intraclass", cost=6, bounds="label prefix and seed enumerated, last label symbolic"))
            for mode in ("multiply", "exact"):
                conds.append(Cond(name=f"oversampling[{tag};absent={extraC};{mode}]", harness=H, body="body_oversampling", cfg=(pf, extraC, mode),
                                  params=lp, pre=lpre, timeout=to, group="oversampling", cost=6, bounds="label prefix enumerated, last label symbolic; absent classes via a larger class count"))
            L = len(pf) + 1
            conds.append(Cond(name=f"classwise-index[{tag};absent={extraC}]", harness=H, body="body_classwise_index", cfg=(pf, extraC),
                              params=[("start", "int"), ("end", "int")] + lp,
                              pre=[f"start == -9 or 0 <= start <= {L + 1}", f"end == -9 or 0 <= end <= {L + 1}"] + lpre, timeout=to, group="classwise-subset", cost=100,
                              bounds="label prefix enumerated; last label, start/end (or None) symbolic"))
            conds.append(Cond(name=f"classwise-percent[{tag};absent={extraC}]", harness=H, body="body_classwise_percent", cfg=(pf, extraC),
                              params=[("kp", "int"), ("kq", "int")] + lp, pre=[f"0 <= kp <= {GRID}", f"0 <= kq <= {GRID}"] + (["kp % 6 == 0", "kq % 6 == 0"] if q else ["kp % 3 == 0", "kq % 3 == 0"]) + lpre, timeout=to,
                              group="classwise-subset", cost=250, bounds="label prefix enumerated; last label and percents k/8 symbolic"))
        for seed in seeds:
            conds.append(Cond(name=f"fewshot[{tag};seed={seed}]", harness=H, body="body_fewshot", cfg=(pf, seed),
                              params=[("shots", "int")] + lp, pre=["1 <= shots <= 3"] + lpre, timeout=to, group="fewshot", cost=10, bounds="label prefix enumerated; last label and shots symbolic"))
    return conds
