"""Shared harness code for C04/C05/C06: probes, closed-form oracle and bodies for
kappadata.samplers.interleaved_sampler (the real classes are executed, nothing is modelled)."""
from vf.common import fail
import kappadata.samplers.interleaved_sampler as M
from kappadata.samplers.interleaved_sampler import InterleavedSampler, InterleavedSamplerConfig

ENCODED = [
    "kappadata.samplers.interleaved_sampler:InterleavedSampler.__init__",
    "kappadata.samplers.interleaved_sampler:InterleavedSampler.__iter__",
    "kappadata.samplers.interleaved_sampler:InterleavedSampler._training_loop",
    "kappadata.samplers.interleaved_sampler:InterleavedSampler._eval_loop",
    "kappadata.samplers.interleaved_sampler:_InterleavedBatchSampler.__iter__",
    "kappadata.samplers.interleaved_sampler:_InterleavedConcatDataset.__getitem__",
    "kappadata.samplers.interleaved_sampler:_InterleavedCollator.__call__",
]


class DS:
    """data source of a sampler: only its length matters to the scheduler"""

    def __init__(self, n, tag=0):
        self.n = n
        self.tag = tag

    def __len__(self):
        return self.n

    def __getitem__(self, i):
        return ("item", self.tag, i)


class TagCollator:
    def __init__(self, tag):
        self.tag = tag

    def __call__(self, data):
        return ("collated", self.tag, list(data))


class MainProbe:
    """main sampler: len() == number of yielded indices (the property's domain); the content of an
    epoch depends on the epoch last announced through set_epoch, so replaying a wrong epoch shows."""

    def __init__(self, n, extra, log):
        self.data_source = DS(n + extra)
        self.n = n
        self.log = log
        self.cur = None

    def __len__(self):
        return self.n

    def set_epoch(self, e):
        self.log.append(("set_epoch", e))
        self.cur = e

    def __iter__(self):
        self.log.append(("iter", self.cur))
        e = self.cur if self.cur is not None else 0
        n = self.n
        for pos in range(n):
            yield (pos + e) % n


class MainProbeStateful:
    """main sampler WITHOUT set_epoch whose content changes with every iteration (like a
    RandomSampler drawing from a generator): iteration number k yields the rotation by k"""

    def __init__(self, n, extra, log):
        self.data_source = DS(n + extra)
        self.n = n
        self.log = log
        self.iters = 0

    def __len__(self):
        return self.n

    def __iter__(self):
        k = self.iters
        self.iters += 1
        self.log.append(("iter", k))
        n = self.n
        for pos in range(n):
            yield (pos + k) % n


def main_content(n, e, pos):
    return (pos + e) % n


class SideProbe:
    """sampler of an interleaved config: yields m-1 .. 0 (not sorted on purpose)"""

    def __init__(self, m, extra, tag=1):
        self.dataset = DS(m + extra, tag)  # exercised through the `dataset` attribute branch
        self.m = m
        self.passes = 0

    def __len__(self):
        return self.m

    def __iter__(self):
        self.passes += 1
        m = self.m
        for k in range(m):
            yield m - 1 - k


def side_content(m, k):
    return m - 1 - k


# ----------------------------------------------------------------------------------------------
# closed-form oracle, written from the statement (not from the loop): everything is a function of
# the update number t (1-based, counted from the start of an uninterrupted run)
# ----------------------------------------------------------------------------------------------
def geometry(n, b, drop_last, dlbs):
    if drop_last:
        unit = dlbs if dlbs is not None else b
        spe = n // unit * unit
    else:
        spe = n
    upe = (spe + b - 1) // b
    return spe, upe


def samples_after(t, spe, upe, b):
    """samples consumed after t updates"""
    full, k = divmod(t, upe)
    return full * spe + min(k * b, spe)


def total_updates(kind, value, spe, upe, b):
    if kind == "epochs":
        return value * upe
    if kind == "updates":
        return value
    t = 1
    while samples_after(t, spe, upe, b) < value:
        t += 1
    return t


def due(cfgc, t, spe, upe, b):
    ene, enu, ens = cfgc[0], cfgc[1], cfgc[2]
    if ene is not None and t % upe == 0 and (t // upe) % ene == 0:
        return True
    if enu is not None and t % enu == 0:
        return True
    if ens is not None and samples_after(t, spe, upe, b) // ens > samples_after(t - 1, spe, upe, b) // ens:
        return True
    return False


def side_pass(cfgc, offset, b):
    m, cbs = cfgc[3], cfgc[4]
    bs = cbs if cbs is not None else b
    out = []
    for k in range(m):
        full = (k + 1) % bs == 0 or k + 1 == m
        out.append((full, offset + side_content(m, k)))
    return out


def offsets(n_ds, cfgs):
    offs = []
    cur = n_ds
    for c in cfgs:
        offs.append(cur)
        cur = cur + c[3] + c[5]
    return offs


def expected_stream(n, extra, b, drop_last, dlbs, kind, value, cfgs, t_from=0):
    """(stream, set_epoch log) of the run from update t_from+1 (t_from on an epoch boundary)."""
    offs = offsets(n + extra, cfgs)
    out = []
    log = []
    if value == 0:
        for c, o in zip(cfgs, offs):
            out.extend(side_pass(c, o, b))
        return out, log
    spe, upe = geometry(n, b, drop_last, dlbs)
    T = total_updates(kind, value, spe, upe, b)
    for t in range(t_from + 1, T + 1):
        e, k = divmod(t - 1, upe)
        if k == 0:
            log.append(("set_epoch", e))
            log.append(("iter", e))
        lo = k * b
        hi = min(lo + b, spe)
        for pos in range(lo, hi):
            out.append((pos == hi - 1, main_content(n, e, pos)))
        for c, o in zip(cfgs, offs):
            if due(c, t, spe, upe, b):
                out.extend(side_pass(c, o, b))
    return out, log


STATEFUL = False  # set by bodies that use the sampler variant without set_epoch


def build(n, extra, b, drop_last, dlbs, kind, value, cfgs, log, **start):
    main = MainProbeStateful(n, extra, log) if STATEFUL else MainProbe(n, extra, log)
    configs = [
        InterleavedSamplerConfig(sampler=SideProbe(c[3], c[5], tag=k + 1), every_n_epochs=c[0], every_n_updates=c[1],
                                 every_n_samples=c[2], batch_size=c[4], collator=TagCollator(k + 1))
        for k, c in enumerate(cfgs)
    ]
    kw = {kind: value}
    kw.update(start)
    return InterleavedSampler(main_sampler=main, batch_size=b, configs=configs, drop_last=drop_last,
                              drop_last_batch_size=dlbs, main_collator=TagCollator(0), **kw)


def locate(idx, nd, cfgs):
    """(dataset number, local index) an emitted global index was drawn for, from the offsets the
    statement promises (config c's range starts after the main dataset and all earlier configs)"""
    if idx < nd:
        return 0, idx
    cur = nd
    for k, c in enumerate(cfgs):
        size = c[3] + c[5]
        if idx < cur + size:
            return k + 1, idx - cur
        cur = cur + size
    return -1, -1


def consume(s, exp):
    """iterate the real sampler against the expected stream; stops one element after the expected
    end, which turns non-termination into a failing verdict instead of a hang"""
    k = 0
    n_exp = len(exp)
    for item in s:
        if k >= n_exp:
            return fail("stream longer than expected (runs past the stopping point or never ends)")
        if item != exp[k]:
            return fail("stream differs from oracle")
        k += 1
    if k != n_exp:
        return fail("stream ends before the stopping point")
    return True


def cut_batches(stream):
    out = []
    cur = []
    for full, idx in stream:
        cur.append(idx)
        if full:
            out.append(cur)
            cur = []
    return out, cur


def parse_mask(km):
    """'eus' -> symbolic values for the three kinds; 'e2s7' -> every_n_epochs=2, every_n_samples=7
    concrete (division/modulo by a constant keeps the solver's arithmetic linear)"""
    out = {}
    k = 0
    while k < len(km):
        ch = km[k]
        k += 1
        d = ""
        while k < len(km) and km[k].isdigit():
            d += km[k]
            k += 1
        out[ch] = int(d) if d else None
    return out


def mk_cfgs(kinds, vals):
    """kinds: tuple per config of a kind mask (see parse_mask); vals: flat list of symbolic values
    (ene, enu, ens, m, cbs_or_0, extra) per config -> tuple (ene|None, enu|None, ens|None, m, cbs|None, extra)"""
    cfgs = []
    for i, km in enumerate(kinds):
        ene, enu, ens, m, cbs, ex = vals[6 * i: 6 * i + 6]
        pm = parse_mask(km)
        pick = lambda ch, sym: None if ch not in pm else (pm[ch] if pm[ch] is not None else sym)
        cfgs.append((pick("e", ene), pick("u", enu), pick("s", ens), m, cbs if cbs != 0 else None, ex))
    return cfgs


# ----------------------------------------------------------------------------------------------
# bodies
# ----------------------------------------------------------------------------------------------
def body_whole(cfg, n, extra, b, drop_last, dlm, value, *vals):
    """whole uninterrupted run: stream, set_epoch order, batch cutting, termination.
    cfg = (budget kind, tuple of kind masks, check_batches)"""
    kind, kinds, check_batches = cfg
    dlbs = None if dlm == 0 else dlm * b
    cfgs = mk_cfgs(kinds, vals)
    exp, exp_log = expected_stream(n, extra, b, drop_last, dlbs, kind, value, cfgs)
    log = []
    try:
        s = build(n, extra, b, drop_last, dlbs, kind, value, cfgs, log)
        if not consume(s, exp):
            return False
    except Exception as e:
        return fail("exception " + type(e).__name__)
    if STATEFUL:
        exp_log = [x for x in exp_log if x[0] == "iter"]
    if log != exp_log:
        return fail("set_epoch / iteration order differs")
    if check_batches:
        exp_batches, rest = cut_batches(exp)
        if rest:
            return fail("oracle stream does not end on a batch boundary")
        try:
            s2 = build(n, extra, b, drop_last, dlbs, kind, value, cfgs, [])
            got = []
            for batch in s2.batch_sampler:
                if len(got) >= len(exp_batches):
                    return fail("more batches than expected")
                got.append(batch)
        except Exception as e:
            return fail("batch sampler exception " + type(e).__name__)
        if got != exp_batches:
            return fail("batches differ")
        # every batch belongs to one dataset, every index resolves to the dataset/sample it was
        # drawn for, and the batch is collated by that dataset's collator
        nd = n + extra
        try:
            for bt in got:
                where = [locate(i, nd, cfgs) for i in bt]
                if any(w[0] != where[0][0] for w in where):
                    return fail("batch mixes datasets")
                items = [s2.dataset[i] for i in bt]
                want = [(w[0], ("item", w[0], w[1])) for w in where]
                if items != want:
                    return fail("index resolves to the wrong dataset/sample")
                if s2.collator(items) != ("collated", where[0][0], [("item", w[0], w[1]) for w in where]):
                    return fail("batch collated by the wrong collator")
        except Exception as e:
            return fail("resolution exception " + type(e).__name__)
    return True


def body_whole_geo_stateful(cfg, extra, value, *vals):
    """same as body_whole_geo with a main sampler that has no set_epoch and changes between iterations"""
    global STATEFUL
    STATEFUL = True
    try:
        return body_whole_geo(cfg, extra, value, *vals)
    finally:
        STATEFUL = False


def body_whole_geo(cfg, extra, value, *vals):
    """whole run with the geometry enumerated: cfg = (n, b, drop_last, dlm, kind, kind masks, check_batches)"""
    n, b, drop_last, dlm, kind, kinds, check_batches = cfg
    return body_whole((kind, kinds, check_batches), n, extra, b, drop_last, dlm, value, *vals)


def reached(kind, value, t, spe, upe, b):
    if kind == "epochs":
        return t == value * upe
    if kind == "updates":
        return t == value
    return samples_after(t, spe, upe, b) >= value


def body_epoch_step(cfg, E, value, *vals):
    """inductive step: from an arbitrary epoch boundary (E epochs done, counters as an uninterrupted
    run has them there) one further epoch is scheduled exactly as the closed form says, including
    whether and where inside the epoch the run stops.
    cfg = (n, b, drop_last, dlm, budget kind, kind masks); E and the budget are unbounded."""
    n, b, drop_last, dlm, kind, kinds = cfg
    dlbs = None if dlm == 0 else dlm * b
    cfgs = mk_cfgs(kinds, vals)
    spe, upe = geometry(n, b, drop_last, dlbs)
    t_from = E * upe
    # domain: the budget lies strictly after the boundary
    if reached_or_past(kind, value, E, spe, upe):
        return True
    offs = offsets(n, cfgs)
    exp = []
    stops = False
    for j in range(1, upe + 1):
        t = t_from + j
        lo = (j - 1) * b
        hi = min(lo + b, spe)
        for pos in range(lo, hi):
            exp.append((pos == hi - 1, main_content(n, E, pos)))
        for c, o in zip(cfgs, offs):
            if due(c, t, spe, upe, b):
                exp.extend(side_pass(c, o, b))
        if reached(kind, value, t, spe, upe, b):
            stops = True
            break
    log = []
    try:
        s = build(n, 0, b, drop_last, dlbs, kind, value, cfgs, log)
        s.start_epoch, s.start_update, s.start_sample = E, E * upe, E * spe
        k = 0
        ended = True
        for item in s:
            if k >= len(exp):
                ended = False
                break
            if item != exp[k]:
                return fail("epoch step differs from oracle")
            k += 1
        if k != len(exp):
            return fail("run ends inside the epoch although the budget is not reached")
        if stops and not ended:
            return fail("run continues past the update at which the budget is reached")
        if not stops and ended:
            return fail("run ends at the epoch boundary although the budget is not reached")
    except Exception as e:
        return fail("exception " + type(e).__name__)
    if log[:2] != [("set_epoch", E), ("iter", E)]:
        return fail("epoch announced wrongly")
    if not stops and log[2:3] != [("set_epoch", E + 1)]:
        return fail("next epoch not announced")
    return True


def reached_or_past(kind, value, E, spe, upe):
    if kind == "epochs":
        return value <= E
    if kind == "updates":
        return value <= E * upe
    return value <= E * spe
