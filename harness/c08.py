"""C08 - seeded sample wrappers make sample i a pure function of (data, config, seed, i)."""
import importlib

from vf.common import fail, patched
from vf.engine import Cond
from kappadata.datasets.kd_dataset import KDDataset
from kappadata.datasets.kd_wrapper import KDWrapper
from kappadata.transforms.base.kd_stochastic_transform import KDStochasticTransform
from kappadata.transforms.base.kd_compose_transform import KDComposeTransform
from kappadata.transforms.base.kd_scheduled_transform import KDScheduledTransform
from kappadata.transforms.kd_random_apply import KDRandomApply
from kappadata.wrappers.sample_wrappers.x_transform_wrapper import XTransformWrapper
from kappadata.wrappers.sample_wrappers.kd_multi_view_wrapper import KDMultiViewWrapper
from kappadata.wrappers.sample_wrappers.semseg_transform_wrapper import SemsegTransformWrapper
from kappadata.wrappers.mode_wrapper import ModeWrapper
from kappadata.wrappers.sample_wrappers.kd_mix_wrapper import KDMixWrapper

TWB = importlib.import_module("kappadata.wrappers.sample_wrappers.base.transform_wrapper_base")
MVW = importlib.import_module("kappadata.wrappers.sample_wrappers.kd_multi_view_wrapper")
STW = importlib.import_module("kappadata.wrappers.sample_wrappers.semseg_transform_wrapper")
KMW = importlib.import_module("kappadata.wrappers.sample_wrappers.kd_mix_wrapper")

MANIFEST_LEVEL = "The seed plumbing of the real sample wrappers (TransformWrapperBase._getitem, XTransformWrapper, KDMultiViewWrapper, SemsegTransformWrapper) together with the real containers KDComposeTransform / KDRandomApply / KDScheduledTransform runs symbolically: np.random.default_rng(seed=s) is a stub whose k-th draw is the token (s, k), probe leaf transforms return the draws they consumed, a member that was not given the per-sample generator answers with a history-dependent token. Seed (unbounded), requested index and two different access histories on two independently built stacks are symbolic; the solver decides that the value for index i is the same under both histories, contains no history-dependent draw, and that different indices use different stream keys."
MANIFEST_NOTE = "Trusted: CrossHair/z3; the default_rng stub (equal seeds give equal streams); 'any number of workers' is reduced to independence from access history and from global state, which is what makes the worker count irrelevant. Pixel kernels and the KDMixWrapper numerics are outside (C11); KDMixWrapper's seed plumbing (stream key = seed + index, also for seed 0) is inside via the 'mix' stack."
MANIFEST_TECHNIQUE = "bounded symbolic execution of the real seed plumbing (CrossHair on z3) with an uninterpreted per-seed draw stream; relational check between two access histories"
PROPERTY = "C08"
ENCODED = [
    "kappadata.wrappers.sample_wrappers.base.transform_wrapper_base:TransformWrapperBase._getitem",
    "kappadata.wrappers.sample_wrappers.x_transform_wrapper:XTransformWrapper.getitem_x",
    "kappadata.wrappers.sample_wrappers.kd_multi_view_wrapper:KDMultiViewWrapper.getitem_x",
    "kappadata.wrappers.sample_wrappers.semseg_transform_wrapper:SemsegTransformWrapper.getitem_xsemseg",
    "kappadata.transforms.base.kd_compose_transform:KDComposeTransform.set_rng",
    "kappadata.transforms.base.kd_compose_transform:KDComposeTransform.__call__",
    "kappadata.transforms.base.kd_stochastic_transform:KDStochasticTransform.set_rng",
    "kappadata.transforms.kd_random_apply:KDRandomApply.set_rng",
    "kappadata.transforms.base.kd_random_apply_base:KDRandomApplyBase.__call__",
    "kappadata.wrappers.sample_wrappers.kd_mix_wrapper:KDMixWrapper.getitem_xclass",
]
STUBS = ["FakeNp.random.default_rng(seed=s): StreamRng whose k-th draw is the token ('draw', s, k); random() of the stream is 0 (so random-apply containers always apply)",
         "ProbeT: leaf KDStochasticTransform returning (input, draw) and recording the draw in ctx; if its rng is not a StreamRng (not injected) the draw is ('uninjected', global call counter)",
         "Leaf dataset with getitem_x / getitem_semseg tokens; Forward KDWrapper"]
ASSUMPTIONS = ["equal seeds give equal generator streams", "a generator created at construction time from the global RNG is history dependent (that is what the hook is there to replace)"]
OUTSIDE = ["real worker processes", "pixel kernels", "numeric draws of KDMixWrapper (C11; its stream key per index is checked here)", "the ready-made wrappers under common/ beyond their use of the same base classes"]
BOUNDS = {"quick": "11 stack shapes (incl. a seeded transform wrapper above a wrapper with fused x+class loading, and the real KDMixWrapper over a leaf whose samples only record which indices were combined); seed unbounded, dataset size n<=6, requested index and two histories of 2 preceding accesses each symbolic",
          "thorough": "same stacks with histories of 3 preceding accesses, n<=8"}

CALLS = [0]


class StreamRng:
    def __init__(self, key):
        self.key = key
        self.k = 0

    def draw(self):
        self.k += 1
        return ("draw", self.key, self.k)

    def random(self, *a):
        self.k += 1
        return 0.0

    def integers(self, *a, **k):
        self.k += 1
        return 0

    def beta(self, *a, **k):
        self.k += 1
        return 0.5


KEYLOG = []


class FakeRandom:
    @staticmethod
    def default_rng(seed=None):
        # KEYLOG: stream keys in creation order (read by the 'mix' stack, whose draws never reach a probe transform)
        if seed is None:
            CALLS[0] += 1
            KEYLOG.append(("uninjected", CALLS[0]))
        else:
            KEYLOG.append(("draw", seed, 1))
        return StreamRng(seed)


class FakeNp:
    random = FakeRandom


class ProbeT(KDStochasticTransform):
    def __call__(self, x, ctx=None):
        if isinstance(self.rng, StreamRng):
            d = self.rng.draw()
        else:
            CALLS[0] += 1
            d = ("uninjected", CALLS[0])
        if ctx is not None:
            ctx.setdefault("draws", []).append(d)
        return (x, d)


class Leaf(KDDataset):
    def __init__(self, n):
        super().__init__()
        self.n = n

    def __len__(self):
        return self.n

    def getitem_x(self, idx, ctx=None):
        return ("x", idx)

    def getitem_semseg(self, idx, ctx=None):
        return ("semseg", idx)


class FakeX:
    """stands for a sample tensor in the 'mix' stack: arithmetic only records which samples were combined"""
    shape = (1,)
    ndim = 1

    def __init__(self, tag):
        self.tag = tag

    def __mul__(self, other):
        return FakeX(("mul", self.tag))

    def __add__(self, other):
        return FakeX(("add", self.tag, other.tag))

    def __eq__(self, other):
        return isinstance(other, FakeX) and self.tag == other.tag

    def __ne__(self, other):
        return not self.__eq__(other)

    __hash__ = None


class MixLeaf(Leaf):
    def getitem_x(self, idx, ctx=None):
        return FakeX(("x", idx))

    def getitem_class(self, idx, ctx=None):
        return 0

    def getshape_class(self):
        return (2,)


class Forward(KDWrapper):
    pass


class FusedXC(KDWrapper):
    """declares x and class as jointly loaded (like KDMixWrapper does)"""

    @property
    def fused_operations(self):
        return super().fused_operations + [["x", "class"]]

    def getitem_x(self, idx, ctx=None):
        return self.dataset.getitem_x(idx, ctx)

    def getitem_class(self, idx, ctx=None):
        return ("class", idx)

    def getitem_xclass(self, idx, ctx=None):
        return self.dataset.getitem_x(idx, ctx), ("class", idx)


STACKS = ["x-over-fused", "x-single", "x-compose", "x-nested-compose", "x-under-forward", "x-over-forward", "multiview", "semseg",
          "x-random-apply", "x-scheduled", "mix"]


def build(stack, n, seed):
    ds = Leaf(n)
    if stack == "mix":
        return KDMixWrapper(MixLeaf(n), mixup_p=1.0, mixup_alpha=1.0, seed=seed), "x"
    if stack == "x-over-fused":
        return XTransformWrapper(FusedXC(ds), ProbeT(), seed=seed), "class x"
    if stack == "x-single":
        return XTransformWrapper(ds, ProbeT(), seed=seed), "x"
    if stack == "x-compose":
        return XTransformWrapper(ds, KDComposeTransform([ProbeT(), ProbeT()]), seed=seed), "x"
    if stack == "x-nested-compose":
        return XTransformWrapper(ds, KDComposeTransform([KDComposeTransform([ProbeT()]), ProbeT()]), seed=seed), "x"
    if stack == "x-under-forward":
        return Forward(XTransformWrapper(ds, ProbeT(), seed=seed)), "x"
    if stack == "x-over-forward":
        return XTransformWrapper(Forward(ds), ProbeT(), seed=seed), "x"
    if stack == "multiview":
        return KDMultiViewWrapper(ds, configs=[(2, ProbeT()), (1, KDComposeTransform([ProbeT()]))], seed=seed), "x"
    if stack == "semseg":
        return SemsegTransformWrapper(ds, [ProbeT(), KDComposeTransform([ProbeT()])], seed=seed), "x semseg"
    if stack == "x-random-apply":
        return XTransformWrapper(ds, KDComposeTransform([KDRandomApply(ProbeT(), p=1.0)]), seed=seed), "x"
    if stack == "x-scheduled":
        return XTransformWrapper(ds, KDComposeTransform([KDScheduledTransform(ProbeT())]), seed=seed), "x"
    raise KeyError(stack)


def has_uninjected(v):
    if isinstance(v, tuple):
        if len(v) == 2 and v[0] == "uninjected":
            return True
        return any(has_uninjected(e) for e in v)
    if isinstance(v, list):
        return any(has_uninjected(e) for e in v)
    if isinstance(v, dict):
        return any(has_uninjected(e) for e in v.values())
    return False


def keys_of(v, out):
    if isinstance(v, tuple):
        if len(v) == 3 and v[0] == "draw":
            out.append(v[1])
            return
        for e in v:
            keys_of(e, out)
    elif isinstance(v, list):
        for e in v:
            keys_of(e, out)
    elif isinstance(v, dict):
        for e in v.values():
            keys_of(e, out)


def body_history(cfg, seed, n, i, j, a0, a1, a2, b0, b1, b2):
    """cfg = (stack, history length)"""
    stack, hl = cfg
    A = [a0, a1, a2][:hl]
    B = [b0, b1, b2][:hl]
    for v in A + B + [i, j]:
        if not (0 <= v < n):
            return True
    try:
        with patched(TWB, np=FakeNp), patched(MVW, np=FakeNp), patched(STW, np=FakeNp), patched(KMW, np=FakeNp):
            CALLS[0] = 0

            def get(m, idx):
                # the mix wrapper consumes its draws itself: report the keys of the streams it created next to the value
                del KEYLOG[:]
                v = m[idx]
                return (v, tuple(KEYLOG)) if stack == "mix" else v
            s1, mode = build(stack, n, seed)
            m1 = ModeWrapper(s1, mode=mode, return_ctx=True)
            for a in A:
                m1[a]
            r1 = get(m1, i)
            s2, _ = build(stack, n, seed)
            m2 = ModeWrapper(s2, mode=mode, return_ctx=True)
            for b in B:
                m2[b]
            r2 = get(m2, i)
            rj = get(m2, j)
    except Exception as e:
        return fail("exception " + type(e).__name__)
    if has_uninjected(r1) or has_uninjected(r2):
        return fail("a stochastic member was not given the per-sample generator (draws from construction-time / global state)")
    if r1 != r2:
        return fail("value for index i depends on the access history")
    k_i, k_j = [], []
    keys_of(r2, k_i)
    keys_of(rj, k_j)
    if not k_i:
        return fail("harness: no draw observed")
    if i != j and any(a == b for a in k_i for b in k_j):
        return fail("different indices draw from the same stream")
    return True


def conditions(tier, rng):
    H = "harness.c08"
    q = tier == "quick"
    to = 600 if q else 1800
    hl = 2 if q else 3
    nmax = 6 if q else 8
    conds = []
    for stack in STACKS:
        conds.append(Cond(
            name=f"history[{stack}]", harness=H, body="body_history", cfg=(stack, hl),
            params=[("seed", "int"), ("n", "int"), ("i", "int"), ("j", "int"), ("a0", "int"), ("a1", "int"), ("a2", "int"), ("b0", "int"), ("b1", "int"), ("b2", "int")],
            pre=[f"1 <= n <= {nmax}", "0 <= seed"], timeout=to, group="seeded-wrapper-history", cost=5,
            bounds=f"seed unbounded, n<={nmax}, requested indices and two histories of {hl} accesses symbolic"))
    return conds
