"""C12 - rank-aware samplers split one global epoch draw evenly and reproducibly."""
import importlib

from vf.common import fail, patched
from vf.engine import Cond
from harness.scripttorch import ScriptTorch, LT, is_perm, distinct_in, ScriptExhausted, ShimMiss
from kappadata.datasets.kd_dataset import KDDataset

DS_MOD = importlib.import_module("kappadata.samplers.distributed_sampler")
RS_MOD = importlib.import_module("kappadata.samplers.random_sampler")
CB_MOD = importlib.import_module("kappadata.samplers.class_balanced_sampler")
WS_MOD = importlib.import_module("kappadata.samplers.weighted_sampler")

MANIFEST_LEVEL = "The real __iter__/__len__ of the rank-splitting samplers run on a scripted torch stub whose draw table is keyed by (generator seed, call number): every draw is a symbolic vector assumed to satisfy the call's contract, world size / rank / seed / epoch / num_repeats / drop_last are symbolic or enumerated, and the solver decides that all ranks yield len(sampler) entries, interleave back into one global draw (trailing entries dropped or wrapped), use the same key on every rank, change it with set_epoch, and that repeated samples occupy num_repeats consecutive slots. Tests use world sizes 1-2 with literal lists."
MANIFEST_NOTE = "Trusted: CrossHair/z3; ScriptTorch contract (equal generator keys give equal draws, randperm is a permutation, multinomial without replacement yields distinct indices). torch's own DistributedSampler.__iter__ (num_repeats == 1) is library code and outside."
MANIFEST_TECHNIQUE = "bounded symbolic execution of the real samplers (CrossHair on z3) over a contract-only torch stub with symbolic draws; relational check between ranks and the single-rank global draw"
PROPERTY = "C12"
ENCODED = [
    "kappadata.samplers.distributed_sampler:DistributedSampler.__iter__",
    "kappadata.samplers.distributed_sampler:DistributedSampler.__init__",
    "kappadata.samplers.random_sampler:RandomSampler.__iter__",
    "kappadata.samplers.class_balanced_sampler:ClassBalancedSampler.__iter__",
    "kappadata.samplers.class_balanced_sampler:ClassBalancedSampler.__len__",
    "kappadata.samplers.class_balanced_sampler:ClassBalancedSampler.set_epoch",
    "kappadata.samplers.weighted_sampler:WeightedSampler.__iter__",
    "kappadata.samplers.weighted_sampler:WeightedSampler.__len__",
]
STUBS = ["ScriptTorch / LT (harness/scripttorch.py): torch.Generator().manual_seed(s) records key s; randperm/multinomial/random_ return the symbolic draw table entry of (key, call#)",
         "ClassDS: leaf dataset with a concrete class layout (the constructors run on the real torch)"]
ASSUMPTIONS = ["the global draw is what the same sampler yields with world_size=1 (the property's own definition of 'interleave back into a single global draw')",
               "draws satisfy the contract of the torch call that produced them"]
OUTSIDE = ["torch's own DistributedSampler.__iter__ for num_repeats == 1", "dataset sizes above the bound", "statistical properties of the real PRNGs"]
BOUNDS = {"quick": "DistributedSampler: n<=5 and W<=4 enumerated (incl. n<W), all ranks, num_repeats in 2..3, drop_last, seed, epoch symbolic (seed/epoch unbounded), permutation symbolic; class-balanced: layouts up to 4 samples / 2 classes, samples_per_class<=2, W<=3; weighted: n<=4, size<=n, W<=3",
          "thorough": "n<=6, W<=6; class-balanced layouts up to 5 samples, samples_per_class<=3 (final shuffles of 6 entries only for world size 2)"}


class LenDS:
    def __init__(self, n):
        self.n = n

    def __len__(self):
        return self.n


class ClassDS(KDDataset):
    def __init__(self, classes):
        super().__init__()
        self.classes = list(classes)

    def __len__(self):
        return len(self.classes)

    def getall_class(self):
        return list(self.classes)

    def getitem_class(self, i, ctx=None):
        return self.classes[i]

    def getshape_class(self):
        return (max(self.classes) + 1,)


def interleave(streams):
    W = len(streams)
    L = min(len(s) for s in streams)
    out = []
    for j in range(L):
        for r in range(W):
            out.append(streams[r][j])
    return out


def body_distributed(cfg, R, drop_last, seed, epoch, *perm):
    """cfg = (n, W). kappadata DistributedSampler with num_repeats >= 2"""
    n, W = cfg
    perm = list(perm)
    if not is_perm(perm, n):
        return True
    st = ScriptTorch([list(perm), list(perm)])  # second copy: a draw under a different key (set_epoch)
    streams = []
    try:
        with patched(DS_MOD, torch=st):
            samplers = []
            for r in range(W):
                s = DS_MOD.DistributedSampler(LenDS(n), num_replicas=W, rank=r, shuffle=True, seed=seed, drop_last=drop_last, num_repeats=R)
                s.set_epoch(epoch)
                samplers.append(s)
                streams.append(list(s))
            keys_epoch = list(st.keys_seen)
            samplers[0].set_epoch(epoch + 1)
            list(samplers[0])
            key_next = st.keys_seen[-1]
    except ScriptExhausted:
        return fail("a rank asked for a draw under a third generator key")
    except ShimMiss:
        raise  # the stub does not model an operation the code used: harness error, not a verdict
    except Exception as e:
        return fail("exception " + type(e).__name__)
    L = len(samplers[0])
    for r in range(W):
        if len(samplers[r]) != L or len(streams[r]) != L:
            return fail("rank stream length differs from len(sampler)")
    if any(k != keys_epoch[0] for k in keys_epoch):
        return fail("ranks seed their generator differently for the same (seed, epoch)")
    if key_next == keys_epoch[0]:
        return fail("set_epoch does not change the draw")
    base = [perm[i // R] for i in range(n)]  # every drawn sample occupies R consecutive slots, cut at n
    G = interleave(streams)
    if drop_last:
        if G != base[:len(G)] or len(G) > n or n - len(G) >= W:
            return fail("with drop_last the ranks do not interleave into the global draw minus a tail shorter than the world size")
    else:
        if len(G) < n or len(G) - n >= W:
            return fail("without drop_last the padded length is not the next multiple of the world size")
        if G[:n] != base:
            return fail("ranks do not interleave into the global draw")
        for j in range(n, len(G)):
            if G[j] != base[(j - n) % n]:
                return fail("padding is not a wrap-around of the global draw")
    return True


def body_random(cfg, R, *perm):
    """cfg = n. kappadata RandomSampler with num_repeats >= 2 and an explicit generator"""
    n = cfg
    perm = list(perm)
    if not is_perm(perm, n):
        return True
    st = ScriptTorch([list(perm)])
    try:
        with patched(RS_MOD, torch=st):
            g = st.Generator().manual_seed(0)
            s = RS_MOD.RandomSampler(LenDS(n), num_repeats=R, generator=g)
            out = list(s)
    except ShimMiss:
        raise  # the stub does not model an operation the code used: harness error, not a verdict
    except Exception as e:
        return fail("exception " + type(e).__name__)
    if out != [perm[i // R] for i in range(n)]:
        return fail("repeated samples do not occupy num_repeats consecutive slots of the draw")
    return True


def cb_draw_sizes(layout, spc):
    C = max(layout) + 1
    counts = [sum(1 for c in layout if c == k) for k in range(C)]
    sizes = []
    for k in range(C):
        reps = (spc + counts[k] - 1) // counts[k]
        sizes += [counts[k]] * reps
    sizes.append(max(2, C) * spc)
    return sizes


def split_draws(sizes, flat):
    out = []
    pos = 0
    for s in sizes:
        out.append(list(flat[pos:pos + s]))
        pos += s
    return out


def make_cb(layout, spc, r, W, seed, epoch, shuffle=True):
    s = CB_MOD.ClassBalancedSampler(ClassDS(layout), shuffle=shuffle, samples_per_class=spc, seed=seed, rank=r, world_size=W)
    s.indices_per_class = [LT(t.tolist()) for t in s.indices_per_class]  # same data, stub tensor type
    s.set_epoch(epoch)
    return s


def body_cb_split(cfg, seed, epoch, *flat):
    """cfg = (layout, spc, W): ranks of the class-balanced sampler vs its single-rank global draw"""
    layout, spc, W = cfg
    sizes = cb_draw_sizes(layout, spc)
    draws = split_draws(sizes, flat)
    if not all(is_perm(d, len(d)) for d in draws):
        return True
    st = ScriptTorch([list(d) for d in draws] + [list(d) for d in draws])
    try:
        with patched(CB_MOD, torch=st):
            glob = list(make_cb(layout, spc, 0, 1, seed, epoch))
            samplers = [make_cb(layout, spc, r, W, seed, epoch) for r in range(W)]
            streams = [list(s) for s in samplers]
            keys = list(st.keys_seen)
            s2 = make_cb(layout, spc, 0, 1, seed, epoch + 1)
            list(s2)
            key_next = st.keys_seen[-1]
    except ScriptExhausted:
        return fail("a rank asked for draws under another generator key / call sequence than the global draw")
    except ShimMiss:
        raise  # the stub does not model an operation the code used: harness error, not a verdict
    except Exception as e:
        return fail("exception " + type(e).__name__)
    L = len(samplers[0])
    if L != len(glob) // W:
        return fail("len(sampler) is not the global length divided by the world size")
    for r in range(W):
        if len(samplers[r]) != L or len(streams[r]) != L:
            return fail("rank stream length differs from len(sampler)")
    if any(k != keys[0] for k in keys) or key_next == keys[0]:
        return fail("generator key is not a function of (seed, epoch) only")
    if interleave(streams) != glob[:L * W]:
        return fail("ranks do not interleave into the global draw (minus dropped tail)")
    return True


def body_weighted_split(cfg, size, seed, epoch, *draw):
    """cfg = (n, W)"""
    n, W = cfg
    import torch as real_torch
    eff = n if size == 0 else size
    draw = list(draw[:eff]) if eff <= len(draw) else list(draw)
    if eff > n or not distinct_in(draw, n) or len(draw) != eff:
        return True
    st = ScriptTorch([list(draw), list(draw)])
    try:
        with patched(WS_MOD, torch=st):
            def mk(r, w, e):
                s = WS_MOD.WeightedSampler(LenDS(n), weights=[1.0] * n, size=None if size == 0 else size, seed=seed, rank=r, world_size=w)
                s.set_epoch(e)
                return s
            glob = list(mk(0, 1, epoch))
            samplers = [mk(r, W, epoch) for r in range(W)]
            streams = [list(s) for s in samplers]
            keys = list(st.keys_seen)
            list(mk(0, 1, epoch + 1))
            key_next = st.keys_seen[-1]
    except ScriptExhausted:
        return fail("a rank asked for a draw under another generator key")
    except ShimMiss:
        raise  # the stub does not model an operation the code used: harness error, not a verdict
    except Exception as e:
        return fail("exception " + type(e).__name__)
    L = len(samplers[0])
    if glob != draw:
        return fail("single-rank stream is not the global draw")
    if L != eff // W:
        return fail("len(sampler)")
    for r in range(W):
        if len(samplers[r]) != L or len(streams[r]) != L:
            return fail("rank stream length differs from len(sampler)")
    if any(k != keys[0] for k in keys) or key_next == keys[0]:
        return fail("generator key is not a function of (seed, epoch) only")
    if interleave(streams) != glob[:L * W]:
        return fail("ranks do not interleave into the global draw (minus dropped tail)")
    return True


CB_LAYOUTS_Q = [(0, 1), (0, 1, 1), (0, 0, 1), (1, 0, 1, 0), (0, 1, 1, 1)]
CB_LAYOUTS_T = CB_LAYOUTS_Q + [(0, 1, 2), (0, 0, 1, 2), (0, 1, 1, 1, 0), (2, 1, 0, 1, 2)]


def conditions(tier, rng):
    H = "harness.c12"
    q = tier == "quick"
    to = 600 if q else 1800
    conds = []
    for n in range(1, 6 if q else 7):
        for W in range(1, 5 if q else 7):
            conds.append(Cond(
                name=f"distributed-repeat[n={n},W={W}]", harness=H, body="body_distributed", cfg=(n, W),
                params=[("R", "int"), ("drop_last", "bool"), ("seed", "int"), ("epoch", "int")] + [(f"p{k}", "int") for k in range(n)],
                pre=["2 <= R <= 3", "0 <= epoch"] + [f"0 <= p{k} < {n}" for k in range(n)], timeout=to, group="distributed-repeat", cost=n * W,
                bounds="n, W enumerated (incl. n < W); num_repeats in 2..3, drop_last, seed, epoch, permutation symbolic"))
        conds.append(Cond(
            name=f"random-repeat[n={n}]", harness=H, body="body_random", cfg=n,
            params=[("R", "int")] + [(f"p{k}", "int") for k in range(n)], pre=["2 <= R <= 4"] + [f"0 <= p{k} < {n}" for k in range(n)],
            timeout=to, group="random-repeat", cost=n, bounds="permutation and num_repeats symbolic"))
    for layout in (CB_LAYOUTS_Q if q else CB_LAYOUTS_T):
        for spc in ((1, 2) if q else (1, 2, 3)):
            sizes = cb_draw_sizes(layout, spc)
            if sizes[-1] > (4 if q else 6):
                continue
            for W in ((1, 2, 3) if q else ((1, 2, 3, 4) if sizes[-1] <= 4 else (2,))):
                flat = []
                pre = ["0 <= epoch"]
                for di, s in enumerate(sizes):
                    for k in range(s):
                        flat.append((f"d{di}_{k}", "int"))
                        pre.append(f"0 <= d{di}_{k} < {s}")
                conds.append(Cond(
                    name=f"class-balanced-split[{''.join(map(str, layout))};spc={spc};W={W}]", harness=H, body="body_cb_split", cfg=(layout, spc, W),
                    params=[("seed", "int"), ("epoch", "int")] + flat, pre=pre, timeout=to, group="class-balanced-split", cost=4 ** len(sizes),
                    bounds="layout, samples_per_class, W enumerated; seed/epoch and every permutation draw symbolic"))
    for n in range(1, 5 if q else 6):
        for W in ((1, 2, 3) if q else (1, 2, 3, 4)):
            conds.append(Cond(
                name=f"weighted-split[n={n},W={W}]", harness=H, body="body_weighted_split", cfg=(n, W),
                params=[("size", "int"), ("seed", "int"), ("epoch", "int")] + [(f"d{k}", "int") for k in range(n)],
                pre=[f"0 <= size <= {n}", "0 <= epoch"] + [f"0 <= d{k} < {n}" for k in range(n)], timeout=to, group="weighted-split", cost=n * n,
                bounds="size (0 = None) symbolic, multinomial draw symbolic distinct indices"))
    return conds
