"""C06 - resuming the interleaved scheduler yields the suffix of the uninterrupted run."""
from vf.common import fail
from vf.engine import Cond
from harness import ilv
from harness.c04 import geometries, cfg_params, cfg_pre

PROPERTY = "C06"
ENCODED = [
    "kappadata.samplers.interleaved_sampler:InterleavedSampler.__init__",
    "kappadata.samplers.interleaved_sampler:InterleavedSampler.__iter__",
    "kappadata.samplers.interleaved_sampler:InterleavedSampler._training_loop",
]
STUBS = ["MainProbe / SideProbe samplers and DS data sources of harness/ilv.py"]
ASSUMPTIONS = [
    "the uninterrupted run is represented by the closed-form oracle of harness/ilv.py; C04/C05 establish, with the same oracle, that the real uninterrupted run equals it within their bounds",
    "a checkpoint is given as the counter values an uninterrupted run has at the boundary of epoch k (start_epoch=k, or start_update / start_sample with the values reached there)",
    "NotImplementedError or AssertionError raised by the constructor count as an explicit refusal",
]
OUTSIDE = ["checkpoints that are not on epoch boundaries (the constructor refuses them)", "geometries above the enumerated bound"]
BOUNDS = {
    "quick": "geometry enumerated n<=5; resume epoch k in 1..3 (symbolic), budget symbolic: epochs<=k+2 | updates,samples up to two epochs past the checkpoint; 0..1 config with symbolic intervals (sampled masks)",
    "thorough": "geometry enumerated n<=6; k in 1..4; all 7 interval-kind masks, plus two configs",
}
MASKS = ["e", "u", "s", "eu", "es", "us", "eus"]


def body_resume(cfg, k, value, *vals):
    """cfg = (n, b, drop_last, dlm, budget kind, kind masks, how) ; how in epoch|update|sample"""
    n, b, drop_last, dlm, kind, kinds, how = cfg
    dlbs = None if dlm == 0 else dlm * b
    cfgs = ilv.mk_cfgs(kinds, vals)
    spe, upe = ilv.geometry(n, b, drop_last, dlbs)
    # domain: the checkpoint lies strictly before the budget
    if ilv.reached_or_past(kind, value, k, spe, upe):
        return True
    exp, exp_log = ilv.expected_stream(n, 0, b, drop_last, dlbs, kind, value, cfgs, t_from=k * upe)
    log = []
    try:
        if how == "epoch":
            start = {"start_epoch": k}
        elif how == "update":
            start = {"start_update": k * upe}
        else:
            start = {"start_sample": k * spe}
        try:
            s = ilv.build(n, 0, b, drop_last, dlbs, kind, value, cfgs, log, **start)
        except (NotImplementedError, AssertionError):
            return True  # explicit refusal is an acceptable answer
        if not ilv.consume(s, exp):
            return False
    except Exception as e:
        return fail("exception " + type(e).__name__)
    if log != exp_log:
        return fail("epochs announced to the main sampler differ from the uninterrupted run")
    return True


def resume_cond(geo, kind, masks, how, kmax, span, to, **kw):
    n, b, dl, dlm = geo
    spe, upe = ilv.geometry(n, b, dl, None if dlm == 0 else dlm * b)
    vmax = {"epochs": f"k + {span}", "updates": f"(k + {span}) * {upe}", "samples": f"(k + {span}) * {spe}"}[kind]
    name = f"resume[{how};n={n},b={b},dl={int(dl)},dlm={dlm};{kind};configs={'+'.join(masks) or '-'}]"
    return Cond(
        name=name, harness="harness.c06", body="body_resume", cfg=(n, b, dl, dlm, kind, tuple(masks), how),
        params=[("k", "int"), ("value", "int")] + cfg_params(len(masks)),
        pre=[f"1 <= k <= {kmax}", f"1 <= value <= {vmax}"] + cfg_pre(masks, **kw),
        timeout=to, group=f"resume-{how}", cost=1 + 3 * len(masks),
        bounds=f"geometry concrete; k<={kmax}; budget up to {span} epochs past the checkpoint",
    )


def conditions(tier, rng):
    q = tier == "quick"
    to = 600 if q else 1800
    conds = []
    geos = [g for g in geometries(5 if q else 6) if ilv.geometry(g[0], g[1], g[2], None if g[3] == 0 else g[3] * g[1])[0] > 0]
    kmax = 3 if q else 4
    for g in geos:
        for kind in ("epochs", "updates", "samples"):
            for how in ("epoch", "update", "sample"):
                conds.append(resume_cond(g, kind, [], how, kmax, 2, to))
    sub = rng.sample(geos, 10) if q else geos
    for g in sub:
        for kind in ("epochs", "updates", "samples"):
            for how in ("epoch", "update", "sample"):
                for mk in (rng.sample(MASKS, 2) if q else MASKS):
                    conds.append(resume_cond(g, kind, [mk], how, kmax, 2, to, m_max=2, cbs_max=1, ex_max=0, ene_max=3, enu_max=3, ens_max=7))
    if not q:
        for g in rng.sample(geos, 12):
            for kind in ("epochs", "updates", "samples"):
                conds.append(resume_cond(g, kind, ["us", "e"], "epoch", 3, 2, to, m_max=1, cbs_max=0, ex_max=0, ene_max=2, enu_max=3, ens_max=5))
    return conds
