"""C06 - resuming the interleaved scheduler yields the suffix of the uninterrupted run."""
from vf.common import fail
from vf.engine import Cond
from harness import ilv
from harness.c04 import geometries, cfg_params, cfg_pre

MANIFEST_LEVEL = "Relational check: the real sampler constructed with start_epoch / start_update / start_sample at epoch boundary k must produce exactly the oracle's suffix of the uninterrupted run (same set_epoch numbers, side passes, stopping point) or refuse explicitly; geometry, k and interval lengths enumerated, budget and config sizes symbolic."
MANIFEST_NOTE = 'Trusted: CrossHair/z3; the uninterrupted run is represented by the oracle that C04/C05 tie to the real code. Outside: non-boundary checkpoints (refused by the constructor).'
MANIFEST_TECHNIQUE = "bounded symbolic execution of the real code (CrossHair on z3): solver verdict over all values within the bounds, per enumerated configuration; counterexamples replayed concretely"
PROPERTY = "C06"
ENCODED = [
    "kappadata.samplers.interleaved_sampler:InterleavedSampler.__init__",
    "kappadata.samplers.interleaved_sampler:InterleavedSampler.__iter__",
    "kappadata.samplers.interleaved_sampler:InterleavedSampler._training_loop",
]
STUBS = ["MainProbe / SideProbe samplers and DS data sources of harness/ilv.py"]
ASSUMPTIONS = [
    "the uninterrupted run is represented by the closed-form oracle of harness/ilv.py; C04/C05 establish, with the same oracle, that the real uninterrupted run equals it within their bounds",
    "a checkpoint is given as the counter values an uninterrupted run has at the boundary of epoch k (start_epoch=k, or start_update / start_sample with the values reached there)",
    "NotImplementedError or AssertionError raised by the constructor count as an explicit refusal",
]
OUTSIDE = ["checkpoints that are not on epoch boundaries (the constructor refuses them)", "geometries above the enumerated bound"]
BOUNDS = {
    "quick": "geometry enumerated n<=5; resume epoch k in 1..3 (symbolic), budget symbolic: epochs<=k+2 | updates,samples up to two epochs past the checkpoint; 0..1 config with symbolic intervals (sampled masks)",
    "thorough": "geometry enumerated n<=6; two resume epochs out of 1..4 per geometry; 6 sampled interval-length combinations per case, plus two configs on sampled geometries",
}
MASKS = ["e", "u", "s", "eu", "es", "us", "eus"]


def body_resume(cfg, value, *vals):
    """cfg = (n, b, drop_last, dlm, budget kind, kind masks, how, k) ; how in epoch|update|sample"""
    n, b, drop_last, dlm, kind, kinds, how, k = cfg
    dlbs = None if dlm == 0 else dlm * b
    cfgs = ilv.mk_cfgs(kinds, vals)
    spe, upe = ilv.geometry(n, b, drop_last, dlbs)
    # domain: the checkpoint lies strictly before the budget
    if ilv.reached_or_past(kind, value, k, spe, upe):
        return True
    exp, exp_log = ilv.expected_stream(n, 0, b, drop_last, dlbs, kind, value, cfgs, t_from=k * upe)
    log = []
    try:
        if how == "epoch":
            start = {"start_epoch": k}
        elif how == "update":
            start = {"start_update": k * upe}
        else:
            start = {"start_sample": k * spe}
        try:
            s = ilv.build(n, 0, b, drop_last, dlbs, kind, value, cfgs, log, **start)
        except (NotImplementedError, AssertionError):
            return True  # explicit refusal is an acceptable answer
        if not ilv.consume(s, exp):
            return False
    except Exception as e:
        return fail("exception " + type(e).__name__)
    if log != exp_log:
        return fail("epochs announced to the main sampler differ from the uninterrupted run")
    return True


def resume_cond(geo, kind, masks, how, k, span, to, **kw):
    n, b, dl, dlm = geo
    spe, upe = ilv.geometry(n, b, dl, None if dlm == 0 else dlm * b)
    vmax = {"epochs": k + span, "updates": (k + span) * upe, "samples": (k + span) * spe}[kind]
    name = f"resume[{how}={k};n={n},b={b},dl={int(dl)},dlm={dlm};{kind};configs={'+'.join(masks) or '-'}]"
    return Cond(
        name=name, harness="harness.c06", body="body_resume", cfg=(n, b, dl, dlm, kind, tuple(masks), how, k),
        params=[("value", "int")] + cfg_params(len(masks)),
        pre=[f"1 <= value <= {vmax}"] + cfg_pre(masks, **kw),
        timeout=to, group=f"resume-{how}", cost=(1 + 3 * len(masks)) * k,
        bounds=f"geometry and resume epoch k={k} concrete; budget symbolic up to {span} epochs past the checkpoint; interval lengths enumerated, config size/batch size symbolic",
    )


def conditions(tier, rng):
    q = tier == "quick"
    to = 600 if q else 1800
    conds = []
    geos = geometries(5 if q else 6)
    singles = [f"e{v}" for v in (1, 2, 3)] + [f"u{v}" for v in (1, 2, 3, 4)] + [f"s{v}" for v in range(1, 10)]
    multis = [f"e{a}u{c}" for a in (1, 2) for c in (2, 3)] + [f"e{a}s{c}" for a in (1, 3) for c in (2, 5, 7)] + \
             [f"u{a}s{c}" for a in (2, 3) for c in (3, 4, 7)] + [f"e2u{c}s{d}" for c in (2, 3) for d in (3, 5)]
    ks = (1, 2, 3) if q else (1, 2, 3, 4)
    for g in geos:
        for kind in ("epochs", "updates", "samples"):
            for how in ("epoch", "update", "sample"):
                for k in (rng.sample(ks, 2) if not q else rng.sample(ks, 1)):
                    conds.append(resume_cond(g, kind, [], how, k, 2, to))
                    for mk in (rng.sample(singles, 1) + rng.sample(multis, 1) if q else rng.sample(singles, 3) + rng.sample(multis, 3)):
                        conds.append(resume_cond(g, kind, [mk], how, k, 2, to, m_max=2, cbs_max=1, ex_max=0))
    if not q:
        for g in rng.sample(geos, 24):
            for kind in ("epochs", "updates", "samples"):
                conds.append(resume_cond(g, kind, [rng.choice(multis), rng.choice(singles)], "epoch", rng.choice(ks), 2, to, m_max=1, cbs_max=0, ex_max=0))
    return conds
