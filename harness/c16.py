"""C16 - label-rewriting wrappers are coherent, in range and reproducible."""
import numpy as np
import torch

import contextlib
import importlib

import einops as real_einops

from vf.common import fail, realize_all, patched
from vf.engine import Cond
from kappadata.datasets.kd_dataset import KDDataset
from kappadata.wrappers.dataset_wrappers.class_groups_wrapper import ClassGroupsWrapper
from kappadata.wrappers.dataset_wrappers.random_superclass_wrapper import RandomSuperclassWrapper
from kappadata.wrappers.dataset_wrappers.swap_label_wrapper import SwapLabelWrapper
from kappadata.wrappers.dataset_wrappers.overwrite_classes_wrapper import OverwriteClassesWrapper
from kappadata.wrappers.dataset_wrappers.allgather_class_wrapper import AllgatherClassWrapper
from kappadata.wrappers.dataset_wrappers.kd_pseudo_label_wrapper import KDPseudoLabelWrapper
from kappadata.wrappers.sample_wrappers.kd_random_class_wrapper import KDRandomClassWrapper
from kappadata.wrappers.sample_wrappers.semi_wrapper import SemiWrapper
from kappadata.wrappers.sample_wrappers.label_smoothing_wrapper import LabelSmoothingWrapper
from kappadata.wrappers.sample_wrappers.one_hot_wrapper import OneHotWrapper

MANIFEST_LEVEL = "Each of the ten label-rewriting wrappers is constructed for real on a leaf dataset with an enumerated label layout; one scalar argument (world size, swap probability, smoothing, threshold, semi-supervised fraction, group size - on small grids) and one label are symbolic and realised where they enter numpy/torch, i.e. the solver enumerates them exhaustively inside the stated ranges. Decided per run: bulk accessor equals per-sample accessor element-wise, labels lie in the announced range or are -1, data other than the label and the wrapped dataset's own label list are untouched, two constructions under different global RNG states agree, smoothed / one-hot vectors are non-negative, sum to one and keep the original class as argmax. For two of the wrappers the bulk accessor is never called by the tests."
MANIFEST_NOTE = "Trusted: CrossHair/z3 for the enumeration, numpy/torch kernels behind the realisation boundary (this check is value enumeration through the solver: the wrappers' tables are computed by C-level code). Outside: uri= loading paths, the statistical quality of top-k sampling, datasets larger than 6 samples."
MANIFEST_TECHNIQUE = "symbolic execution of the real wrappers with symbolic scalars/labels realised at the numpy/torch boundary (CrossHair on z3, exhaustive over the bounded ranges per configuration)"
PROPERTY = "C16"
ENCODED = [
    "kappadata.wrappers.dataset_wrappers.class_groups_wrapper:ClassGroupsWrapper.__init__",
    "kappadata.wrappers.dataset_wrappers.class_groups_wrapper:ClassGroupsWrapper._map_cls",
    "kappadata.wrappers.dataset_wrappers.random_superclass_wrapper:RandomSuperclassWrapper.__init__",
    "kappadata.wrappers.dataset_wrappers.random_superclass_wrapper:RandomSuperclassWrapper._map_cls",
    "kappadata.wrappers.dataset_wrappers.swap_label_wrapper:SwapLabelWrapper.__init__",
    "kappadata.wrappers.dataset_wrappers.overwrite_classes_wrapper:OverwriteClassesWrapper.getitem_class",
    "kappadata.wrappers.dataset_wrappers.allgather_class_wrapper:AllgatherClassWrapper.__init__",
    "kappadata.wrappers.dataset_wrappers.allgather_class_wrapper:AllgatherClassWrapper.getall_class",
    "kappadata.wrappers.dataset_wrappers.kd_pseudo_label_wrapper:KDPseudoLabelWrapper._getitem_class",
    "kappadata.wrappers.dataset_wrappers.kd_pseudo_label_wrapper:KDPseudoLabelWrapper.getall_class",
    "kappadata.wrappers.sample_wrappers.kd_random_class_wrapper:KDRandomClassWrapper._generate_classes",
    "kappadata.wrappers.sample_wrappers.semi_wrapper:SemiWrapper.getall_class",
    "kappadata.wrappers.sample_wrappers.label_smoothing_wrapper:LabelSmoothingWrapper.getitem_class",
    "kappadata.wrappers.sample_wrappers.one_hot_wrapper:OneHotWrapper.getitem_class",
]
STUBS = ["LDS: leaf dataset with a label list (its own list object is handed out by getall_class, as real datasets do) and a unique x per sample"]
ASSUMPTIONS = ["domain as stated: group sizes dividing the class count, world sizes not exceeding the dataset size", "float comparisons with tolerance 1e-6"]
OUTSIDE = ["uri= loading", "top-k sampling distribution (only range and seed-dependence are checked)", "datasets larger than 6 samples"]
BOUNDS = {"quick": "layouts of 3-6 samples over 2-4 classes (enumerated, last label symbolic); world size 1..n, probabilities / smoothing / thresholds / fractions on the grid k/4, seeds {0,3}",
          "thorough": "same with more layouts"}


AG_MOD = importlib.import_module("kappadata.wrappers.dataset_wrappers.allgather_class_wrapper")
RC_MOD = importlib.import_module("kappadata.wrappers.sample_wrappers.kd_random_class_wrapper")


class UntracedEinops:
    """einops.rearrange fails under CrossHair's opcode tracing (TypeError inside its pattern cache);
    its arguments are concrete tensors here, so it is simply executed with tracing switched off"""

    @staticmethod
    def rearrange(*a, **k):
        try:
            from crosshair.tracers import NoTracing, is_tracing
            if is_tracing():
                with NoTracing():
                    return real_einops.rearrange(*a, **k)
        except ImportError:
            pass
        return real_einops.rearrange(*a, **k)


class LDS(KDDataset):
    def __init__(self, classes, C):
        super().__init__()
        self.classes = list(classes)
        self.C = C

    def __len__(self):
        return len(self.classes)

    def getitem_x(self, idx, ctx=None):
        return ("x", idx)

    def getitem_class(self, idx, ctx=None):
        return self.classes[idx]

    def getall_class(self):
        return self.classes  # the dataset's own list

    def getshape_class(self):
        return (self.C,)


def as_py(v):
    if torch.is_tensor(v):
        return v.tolist()
    if isinstance(v, np.generic):
        return v.item()
    if isinstance(v, np.ndarray):
        return v.tolist()
    return v


def build(kind, ds, s, seed):
    n = len(ds)
    C = ds.C
    if kind == "class-groups":
        return ClassGroupsWrapper(ds, classes_per_group=2, shuffle=False, seed=seed)
    if kind == "class-groups-shuffle":
        return ClassGroupsWrapper(ds, classes_per_group=2, shuffle=True, seed=seed)
    if kind == "superclass":
        return RandomSuperclassWrapper(ds, classes_per_superclass=2, superclass_splits=1, shuffle=True, seed=seed)
    if kind == "superclass-splits":
        return RandomSuperclassWrapper(ds, classes_per_superclass=2, superclass_splits=2, shuffle=True, seed=seed)
    if kind == "swap":
        return SwapLabelWrapper(ds, p=s / 4.0, seed=seed)
    if kind == "overwrite":
        return OverwriteClassesWrapper(ds, classes=[(c + 1 + s) % C for c in ds.classes])
    if kind == "overwrite-tensor":
        return OverwriteClassesWrapper(ds, classes=torch.tensor([(c + 1 + s) % C for c in ds.classes]))
    if kind == "allgather":
        return AllgatherClassWrapper(ds, world_size=s + 1)
    if kind == "random-class":
        return KDRandomClassWrapper(ds, mode="random", seed=seed)
    if kind == "random-class-perm":
        return KDRandomClassWrapper(ds, mode="randperm", seed=seed)
    if kind == "random-class-gather":
        return KDRandomClassWrapper(ds, mode="gatherbug", mode_kwargs=dict(world_size=s + 1), seed=seed)
    if kind == "semi":
        return SemiWrapper(dataset=ds, semi_percent=s / 4.0, seed=seed)
    if kind == "smoothing":
        return LabelSmoothingWrapper(ds, smoothing=s / 4.0)
    if kind == "one-hot":
        return OneHotWrapper(ds)
    if kind in ("pseudo-hard", "pseudo-soft", "pseudo-threshold", "pseudo-topk"):
        g = torch.Generator().manual_seed(5)
        table = torch.rand(n, C, generator=g)
        table[0] = 0.0  # an all-equal row: its top softmax probability is exactly 1/C (a grid threshold for C in {2,4})
        if kind == "pseudo-hard":
            return KDPseudoLabelWrapper(ds, pseudo_labels=table.argmax(dim=1))
        if kind == "pseudo-soft":
            return KDPseudoLabelWrapper(ds, pseudo_labels=table)
        if kind == "pseudo-threshold":
            return KDPseudoLabelWrapper(ds, pseudo_labels=table, threshold=s / 4.0)
        return KDPseudoLabelWrapper(ds, pseudo_labels=table, topk=2, tau=float("inf"), seed=seed)
    raise KeyError(kind)


KNOWN_CLASSES = set()
IGNORE_KNOWN = False
try:
    import json as _json
    import os as _os
    _kf = _json.load(open(_os.path.join(_os.path.dirname(_os.path.dirname(_os.path.abspath(__file__))), "known_findings.json")))
    KNOWN_CLASSES = {e["class"] for e in _kf["findings"] if e.get("property") == "C16" and e.get("status") == "known"}
except Exception:
    pass

VECTOR_KINDS = ("smoothing", "one-hot")
NO_BULK = ("pseudo-topk",)  # getall_class raises NotImplementedError by design


def body_labels(cfg, s, l):
    """cfg = (kind, label prefix, C, seed)"""
    kind, prefix, C, seed = cfg
    s, l = realize_all([s, l])
    labels = list(prefix) + [l]
    n = len(labels)
    if kind in ("allgather", "random-class-gather") and s + 1 > n:
        return True
    try:
        ds = LDS(labels, C)
        np.random.seed(1)
        torch.manual_seed(1)
        st = contextlib.ExitStack()
        st.enter_context(patched(AG_MOD, einops=UntracedEinops))
        st.enter_context(patched(RC_MOD, einops=UntracedEinops))
        w = build(kind, ds, s, seed)
        per = [as_py(w.getitem_class(i)) for i in range(n)]
        if kind not in NO_BULK:
            bulk = [as_py(v) for v in w.getall_class()]
            bulk2 = [as_py(v) for v in w.getall_class()]
        shape = w.getshape_class()
        xs = [w.getitem_x(i) for i in range(n)]
        ds2 = LDS(labels, C)
        np.random.seed(2)
        torch.manual_seed(2)
        w2 = build(kind, ds2, s, seed)
        per2 = [as_py(w2.getitem_class(i)) for i in range(n)]
        st.close()
    except Exception as e:
        return fail("exception " + type(e).__name__)
    if ds.classes != labels:
        return fail("the wrapped dataset's own label list was mutated")
    if xs != [("x", i) for i in range(n)]:
        return fail("data other than the label was touched")
    if kind not in NO_BULK:
        if bulk != per or bulk2 != per:
            cls = "bulk-differs:" + type(w).__name__
            if not (cls in KNOWN_CLASSES and not IGNORE_KNOWN):
                return fail("bulk label accessor differs from the per-sample accessor (" + cls + ")")
    if per != per2:
        return fail("labels depend on global RNG state, not only on constructor arguments and seed")
    if kind == "smoothing" and C == 1:
        # binary labels (class shape (1,)): smoothed scalars stay on their side of 0.5, -1 stays the marker
        for i, v in enumerate(per):
            if labels[i] == -1:
                if v != -1 and v != [-1.0]:
                    return fail("unlabeled marker -1 was rewritten")
            elif not (0 <= v <= 1 and (v > 0.5) == (labels[i] == 1) or (s == 4 and v == 0.5)):
                return fail("smoothed binary label left [0,1] or changed side")
    elif kind in VECTOR_KINDS and not (kind == "smoothing" and s == 0):
        for i, v in enumerate(per):
            if len(v) != C or min(v) < -1e-6 or abs(sum(v) - 1.0) > 1e-5 or v[labels[i]] < max(v) - 1e-6:
                return fail("encoded label vector is not non-negative / does not sum to one / original class is not the argmax")
    else:
        hi = shape[0]
        for v in per:
            if not (v == -1 or 0 <= v < hi):
                return fail("label outside the announced class range")
    return True


KINDS = ["class-groups", "class-groups-shuffle", "superclass", "superclass-splits", "swap", "overwrite", "overwrite-tensor", "allgather",
         "random-class", "random-class-perm", "random-class-gather", "semi", "smoothing", "one-hot",
         "pseudo-hard", "pseudo-soft", "pseudo-threshold", "pseudo-topk"]
SCALAR = {"swap": 5, "overwrite": 2, "overwrite-tensor": 2, "allgather": 6, "random-class-gather": 4, "semi": 5, "smoothing": 5, "pseudo-threshold": 5}
LAYOUTS = [((0, 1, 0), 2), ((0, 1, 2, 3, 1), 4), ((3, 3, 0, 1), 4), ((0, 2, 1, 2), 3), ((1, -1, 0), 1), ((1, 0, 1, 1, 0), 2)]


def conditions(tier, rng):
    H = "harness.c16"
    q = tier == "quick"
    to = 600 if q else 1800
    conds = []
    layouts = LAYOUTS if not q else LAYOUTS[:5]
    for kind in KINDS:
        for prefix, C in layouts:
            if kind.startswith("class-groups") and C % 2 != 0:
                continue  # domain: group sizes dividing the class count (class-group wrapper only)
            if C == 1 and kind != "smoothing":
                continue
            for seed in ((0, 3) if kind in ("class-groups-shuffle", "superclass", "superclass-splits", "swap", "random-class", "random-class-perm", "semi", "pseudo-topk") else (0,)):
                smax = SCALAR.get(kind, 1)
                if C == 3 and not (kind.startswith("superclass") or kind in ("swap", "allgather", "pseudo-threshold", "one-hot")):
                    continue  # the 3-class layout is there for class counts that the group size does not divide
                conds.append(Cond(
                    name=f"labels[{kind};{''.join(map(str, prefix))}?;C={C};seed={seed}]", harness=H, body="body_labels", cfg=(kind, prefix, C, seed),
                    params=[("s", "int"), ("l", "int")], pre=[f"0 <= s < {smax}", f"0 <= l < {max(C, 2)}"], timeout=to, group=f"labels-{kind}", cost=smax * C,
                    bounds="layout prefix, class count and seed enumerated; one scalar argument (grid) and the last label symbolic, realised at the numpy/torch boundary"))
    return conds
