"""C04 - interleaved scheduler: main stream, batch cutting and stopping point are exact."""
from vf.engine import Cond
from harness import ilv
from harness.ilv import body_whole, body_whole_geo, body_whole_geo_stateful, body_epoch_step  # noqa: F401  (bodies are looked up on this module)

MANIFEST_LEVEL = 'Within the stated bounds the SMT solver decides every path of the real InterleavedSampler (_training_loop, _eval_loop, batch sampler) against a closed-form oracle: whole runs with symbolic budget (and symbolic geometry n<=4..6), plus an inductive epoch step from any epoch boundary E<=1000 with unbounded budget. Unit tests sample 17 streams; here geometry x budget kind is enumerated and budget value / counters are symbolic.'
MANIFEST_NOTE = "Trusted: CrossHair's models and z3; probe samplers yield len() indices; oracle in harness/ilv.py. Outside: n above the enumerated bound, real DataLoader workers."
MANIFEST_TECHNIQUE = "bounded symbolic execution of the real code (CrossHair on z3): solver verdict over all values within the bounds, per enumerated configuration; counterexamples replayed concretely"
PROPERTY = "C04"
ENCODED = ilv.ENCODED[:5]
STUBS = [
    "MainProbeStateful: main sampler without set_epoch whose k-th iteration yields the rotation by k",
    "MainProbe: main sampler of symbolic length n whose epoch content is a rotation by the epoch announced via set_epoch; logs set_epoch/__iter__ order",
    "SideProbe: interleaved-config sampler of symbolic length m yielding m-1..0",
    "DS: data source whose only behaviour is len()",
]
ASSUMPTIONS = [
    "main sampler yields exactly len(sampler) indices per iteration (the property's stated domain)",
    "oracle = closed form over the update number t (samples_after(t), due(c,t)) written from the statement, not from the loop",
]
OUTSIDE = [
    "main sampler lengths above the bound of the whole-run conditions (the inductive epoch step covers any number of epochs but its geometry (n,b) is enumerated up to the same bound)",
    "real DataLoader worker processes",
]
BOUNDS = {
    "quick": "whole runs: n<=5 (symbolic), b<=n, drop_last, drop_last_batch_size in {None,b,2b,3b}, epochs<=3 | updates<=7 | samples<=12, 0..2 configs with symbolic intervals; "
             "inductive epoch step from any boundary E<=1000 with unbounded budget, geometry enumerated n<=5",
    "thorough": "whole runs: symbolic geometry n<=5; all geometries n<=7 without configs, 30 sampled geometries with one config, 12 with two; epochs<=3 | updates<=8 | samples<=14; inductive epoch step from any boundary E<=1000 with unbounded budget, all geometries n<=7",
}

CFG_PARAMS = ["ene", "enu", "ens", "m", "cbs", "ex"]


def cfg_params(nc):
    out = []
    for i in range(nc):
        out += [(f"{p}{i}", "int") for p in CFG_PARAMS]
    return out


def cfg_pre(masks, ene_max=3, enu_max=4, ens_max=9, m_max=3, cbs_max=3, ex_max=1):
    pre = []
    for i, km in enumerate(masks):
        pm = ilv.parse_mask(km)
        sym = lambda ch: ch in pm and pm[ch] is None
        pre.append(f"1 <= ene{i} <= {ene_max}" if sym("e") else f"ene{i} == 1")
        pre.append(f"1 <= enu{i} <= {enu_max}" if sym("u") else f"enu{i} == 1")
        pre.append(f"1 <= ens{i} <= {ens_max}" if sym("s") else f"ens{i} == 1")
        pre.append(f"1 <= m{i} <= {m_max}")
        pre.append(f"0 <= cbs{i} <= {cbs_max}")
        pre.append(f"0 <= ex{i} <= {ex_max}")
    return pre


def whole_cond(pid, harness, kind, masks, nmax, vmax, check_batches, timeout, tag="", **kw):
    name = f"whole[{kind};configs={'+'.join(masks) or '-'}{tag}]"
    pre = [
        f"1 <= n <= {nmax}", "0 <= extra <= 1", "1 <= b <= n", "0 <= dlm <= 3",
        "dlm == 0 or (drop_last and dlm * b <= n)", f"0 <= value <= {vmax}",
    ] + cfg_pre(masks, **kw)
    return Cond(
        name=name, harness=harness, body="body_whole", cfg=(kind, tuple(masks), check_batches),
        params=[("n", "int"), ("extra", "int"), ("b", "int"), ("drop_last", "bool"), ("dlm", "int"), ("value", "int")] + cfg_params(len(masks)),
        pre=pre, timeout=timeout, group="whole-run", cost=(1 + 3 * len(masks)) * nmax,
        bounds=f"n<={nmax}, b<=n, dlm<=3, {kind}<={vmax}, {len(masks)} configs",
    )


def whole_geo_cond(harness, geo, kind, masks, vmax, check_batches, timeout, **kw):
    n, b, dl, dlm = geo
    name = f"wholegeo[n={n},b={b},dl={int(dl)},dlm={dlm};{kind};configs={'+'.join(masks) or '-'}]"
    pre = ["0 <= extra <= 1", f"0 <= value <= {vmax}"] + cfg_pre(masks, **kw)
    return Cond(
        name=name, harness=harness, body="body_whole_geo", cfg=(n, b, dl, dlm, kind, tuple(masks), check_batches),
        params=[("extra", "int"), ("value", "int")] + cfg_params(len(masks)),
        pre=pre, timeout=timeout, group="whole-run-enumerated-geometry", cost=(1 + 3 * len(masks)) * vmax / 4,
        bounds=f"geometry n={n},b={b} concrete; {kind}<={vmax}; {len(masks)} configs with symbolic intervals/sizes",
    )


def step_cond(harness, geo, kind, masks, timeout, **kw):
    n, b, dl, dlm = geo
    name = f"step[n={n},b={b},dl={int(dl)},dlm={dlm};{kind};configs={'+'.join(masks) or '-'}]"
    # E is bounded at 1000 epochs: with unbounded E z3 needs > 10 s per query to relate two
    # different div/mod formulations of the every_n_samples crossing test (measured), with the
    # bound the same queries take milliseconds. The budget stays unbounded.
    # (every_n_samples configs: 60 - relating the two div formulations over several updates per epoch
    # is only decided quickly for small counters)
    emax = 60 if any("s" in m for m in masks) else 1000
    pre = [f"0 <= E <= {emax}", "0 <= value"] + cfg_pre(masks, **kw)
    return Cond(
        name=name, harness=harness, body="body_epoch_step", cfg=(n, b, dl, dlm, kind, tuple(masks)),
        params=[("E", "int"), ("value", "int")] + cfg_params(len(masks)),
        pre=pre, timeout=timeout, group="inductive-epoch-step", cost=2 + 4 * len(masks),
        bounds=f"geometry n={n},b={b} concrete; 0<=E<={emax} epochs already done, budget unbounded",
    )


def geometries(nmax):
    out = []
    for n in range(1, nmax + 1):
        for b in range(1, n + 1):
            out.append((n, b, False, 0))
            out.append((n, b, True, 0))
            for dlm in (1, 2, 3):
                if dlm * b <= n:
                    out.append((n, b, True, dlm))
    return out


VMAX = {"quick": {"epochs": 3, "updates": 7, "samples": 12}, "thorough": {"epochs": 3, "updates": 8, "samples": 14}}


def conditions(tier, rng):
    H = "harness.c04"
    conds = []
    to = 600 if tier == "quick" else 1800
    # symbolic geometry, whole run, no configs
    nsym = 4 if tier == "quick" else 5
    for kind in ("epochs", "updates", "samples"):
        v = {"epochs": 3, "updates": 6, "samples": 9}[kind] if tier == "quick" else VMAX[tier][kind]
        conds.append(whole_cond("C04", H, kind, [], nsym, v, False, to))
    # enumerated geometry, whole run, symbolic budget and configs in between
    geos = geometries(5 if tier == "quick" else 7)
    for g in geos:
        for kind in ("epochs", "updates", "samples"):
            v = VMAX[tier][kind]
            conds.append(whole_geo_cond(H, g, kind, [], v, True, to))
    sub = rng.sample(geos, 30) if tier == "thorough" else rng.sample(geos, 10)
    for g in sub:
        for kind in ("epochs", "updates", "samples"):
            v = VMAX[tier][kind]
            for masks in (["e"], ["u"], ["s"]):
                conds.append(whole_geo_cond(H, g, kind, masks, v, False, to, m_max=2, cbs_max=2, ens_max=6 if tier == "quick" else 9))
    for g in (rng.sample(geos, 12) if tier == "thorough" else rng.sample(geos, 4)):
        for kind in ("epochs", "updates", "samples"):
            v = VMAX[tier][kind]
            conds.append(whole_geo_cond(H, g, kind, ["u", "e"], v, True, to, m_max=2, cbs_max=0, ex_max=0, ene_max=2, enu_max=2))
    # main sampler without set_epoch whose content changes with every iteration
    for g in (geos if tier == "thorough" else rng.sample(geos, 12)):
        for kind in ("epochs", "updates", "samples"):
            c = whole_geo_cond(H, g, kind, [], VMAX[tier][kind], False, to)
            c.body = "body_whole_geo_stateful"
            c.name = c.name.replace("wholegeo[", "wholegeo-stateful[")
            c.group = "whole-run-stateful-sampler"
            conds.append(c)
    # inductive epoch step, E and budget unbounded
    for g in geometries(5 if tier == "quick" else 7):
        for kind in ("epochs", "updates", "samples"):
            conds.append(step_cond(H, g, kind, [], to))
    return conds
