"""C01 - mode string decides exactly which items a sample has, and in which order."""
import itertools

from vf.common import fail
from vf.engine import Cond
from kappadata.datasets.kd_dataset import KDDataset
from kappadata.datasets.kd_wrapper import KDWrapper
from kappadata.wrappers.mode_wrapper import ModeWrapper
from kappadata.wrappers.torch_wrapper import TorchWrapper

MANIFEST_LEVEL = "Per enumerated (wrapper stack, mode string) configuration the solver decides, for an unbounded symbolic dataset size n, index i in [-n,n), return_ctx flag and one arbitrary preceding access, that the real ModeWrapper returns position by position what the stack's loaders return for sample i, bare/tuple, ctx iff requested and fresh, fused groups delivered in mode order from one joint load; slices, index lists, iteration and len against Python's own sequence semantics; static batch helpers as get/set laws. Tests sample a dozen mode strings on 3-element datasets."
MANIFEST_NOTE = "Trusted: CrossHair/z3; probe leaf datasets/wrappers that return (item, index, call nonce) tokens. Outside: mode strings longer than the bound, the DataLoader fetch path."
MANIFEST_TECHNIQUE = "bounded symbolic execution of the real code (CrossHair on z3): one condition per (stack, mode string), dataset size and indices symbolic and unbounded; counterexamples replayed concretely"
PROPERTY = "C01"
ENCODED = [
    "kappadata.wrappers.mode_wrapper:ModeWrapper.__init__",
    "kappadata.wrappers.mode_wrapper:ModeWrapper.__getitem__",
    "kappadata.wrappers.mode_wrapper:ModeWrapper.__len__",
    "kappadata.wrappers.mode_wrapper:ModeWrapper.__iter__",
    "kappadata.wrappers.mode_wrapper:ModeWrapper.has_item",
    "kappadata.wrappers.mode_wrapper:ModeWrapper.add_item",
    "kappadata.wrappers.mode_wrapper:ModeWrapper.get_item_index",
    "kappadata.wrappers.mode_wrapper:ModeWrapper.get_item",
    "kappadata.wrappers.mode_wrapper:ModeWrapper.set_item",
    "kappadata.wrappers.mode_wrapper:ModeWrapper._getitem_from_ctx",
    "kappadata.wrappers.torch_wrapper:TorchWrapper.__getattr__",
    "kappadata.wrappers.torch_wrapper:TorchWrapper._getitem",
    "kappadata.datasets.kd_wrapper:KDWrapper.__getattr__",
    "kappadata.datasets.kd_dataset:KDDataset.__getattr__",
]
STUBS = [
    "ProbeDS: leaf KDDataset of symbolic length whose loaders return (item, index, call nonce) and record ctx['k<item>'] = ('k<item>', index)",
    "Forward (KDWrapper without methods), FusedW (declares [['x','class']] / two groups and loads them jointly with one nonce), XT (implements x/class/xclass like XTransformWrapper and tags x), TupleDS (torch-style dataset returning tuples, for TorchWrapper)",
]
ASSUMPTIONS = ["domain as stated: 'ctx.<key>' after the item that records the key; on stacks declaring fused items every requested item is implemented on the outermost wrapper (the complement must be rejected by the constructor)",
               "mode strings without duplicate items"]
OUTSIDE = ["mode strings longer than the bound, alphabets with more than two ctx keys", "DataLoader fetch path (__getitems__)"]
BOUNDS = {"quick": "stacks {plain, forward, fused-outermost, XT-over-fused, two fused groups, TorchWrapper, forward-over-fused (must reject)}; modes over {x,class,y,index,ctx.kx,ctx.kx2,ctx.kclass} up to length 3 plus fixed longer modes with several ctx items (all for fused stacks, sampled otherwise); n unbounded, i in [-n,n), one preceding access; sequence forms with n<=4",
          "thorough": "same stacks, all modes up to length 4"}

ALPHABET = ["x", "class", "y", "index", "ctx.kx", "ctx.kclass", "ctx.kx2"]
RECORDER = {"ctx.kx": "x", "ctx.kclass": "class", "ctx.kx2": "x"}
# modes with several different ctx items (always included, also in the quick tier)
MULTI_CTX = ["x ctx.kx ctx.kx2", "x ctx.kx2 ctx.kx", "x class ctx.kx ctx.kclass", "class x ctx.kclass ctx.kx2 ctx.kx", "x ctx.kx class ctx.kclass index"]


class ProbeDS(KDDataset):
    def __init__(self, n):
        super().__init__()
        self.n = n
        self.calls = 0

    def __len__(self):
        return self.n

    def _load(self, item, idx, ctx):
        self.calls += 1
        if ctx is not None:
            ctx["k" + item] = ("k" + item, idx)
            if item == "x":
                ctx["kx2"] = ("kx2", idx)
        return (item, idx, self.calls)

    def getitem_x(self, idx, ctx=None):
        return self._load("x", idx, ctx)

    def getitem_class(self, idx, ctx=None):
        return self._load("class", idx, ctx)

    def getitem_y(self, idx, ctx=None):
        return self._load("y", idx, ctx)

    def getitem_z(self, idx, ctx=None):
        return self._load("z", idx, ctx)


ProbeDS.__name__ = "ProbeDS"


class Forward(KDWrapper):
    pass


class FusedW(KDWrapper):
    """declares x+class as jointly loaded; joint load = one underlying call whose nonce both share"""

    @property
    def fused_operations(self):
        return self.dataset.fused_operations + [["x", "class"]]

    def _joint(self, idx, ctx):
        root = self.dataset.root_dataset
        root.calls += 1
        if ctx is not None:
            ctx["kx"] = ("kx", idx)
            ctx["kx2"] = ("kx2", idx)
            ctx["kclass"] = ("kclass", idx)
        return ("x", idx, root.calls), ("class", idx, root.calls)

    def getitem_x(self, idx, ctx=None):
        return self._joint(idx, ctx)[0]

    def getitem_class(self, idx, ctx=None):
        return self._joint(idx, ctx)[1]

    def getitem_xclass(self, idx, ctx=None):
        return self._joint(idx, ctx)

    def getitem_y(self, idx, ctx=None):
        return self.dataset.getitem_y(idx, ctx)


class FusedW2(FusedW):
    """two fused groups: [x, class] and [y, z]"""

    @property
    def fused_operations(self):
        return self.dataset.fused_operations + [["x", "class"], ["y", "z"]]

    def getitem_yz(self, idx, ctx=None):
        root = self.dataset.root_dataset
        root.calls += 1
        if ctx is not None:
            ctx["ky"] = ("ky", idx)
            ctx["kz"] = ("kz", idx)
        return ("y", idx, root.calls), ("z", idx, root.calls)

    def getitem_y(self, idx, ctx=None):
        return self.getitem_yz(idx, ctx)[0]

    def getitem_z(self, idx, ctx=None):
        return self.getitem_yz(idx, ctx)[1]


class XT(KDWrapper):
    """the XTransformWrapper pattern: implements x / class / xclass on top of a fused wrapper, tags x"""

    def getitem_x(self, idx, ctx=None):
        return ("xt", self.dataset.getitem_x(idx, ctx))

    def getitem_class(self, idx, ctx=None):
        return self.dataset.getitem_class(idx, ctx)

    def getitem_xclass(self, idx, ctx=None):
        x, c = self.dataset.getitem_xclass(idx, ctx)
        return ("xt", x), c

    def getitem_y(self, idx, ctx=None):
        return self.dataset.getitem_y(idx, ctx)


class TupleDS:
    """torch-style dataset: ds[i] -> (x, class)"""

    def __init__(self, n):
        self.n = n

    def __len__(self):
        return self.n

    def __getitem__(self, i):
        return (("tx", i), ("tclass", i))


STACKS = ["plain", "forward", "fused", "xt-fused", "fused2", "torch", "forward-over-fused"]


def build_stack(stack, n):
    if stack == "plain":
        return ProbeDS(n)
    if stack == "forward":
        return Forward(Forward(ProbeDS(n)))
    if stack == "fused":
        return FusedW(ProbeDS(n))
    if stack == "xt-fused":
        return XT(FusedW(ProbeDS(n)))
    if stack == "fused2":
        return FusedW2(ProbeDS(n))
    if stack == "torch":
        return TorchWrapper(TupleDS(n), mode="x class")
    if stack == "forward-over-fused":
        return Forward(FusedW(ProbeDS(n)))
    raise KeyError(stack)


def groups_of(stack):
    if stack in ("fused", "xt-fused"):
        return [["x", "class"]]
    if stack == "fused2":
        return [["x", "class"], ["y", "z"]]
    return []


def item_kind_ok(stack, item, got, idx):
    """does `got` look like what the stack's loader for `item` returns for sample idx"""
    if item == "index":
        return got == idx
    if item.startswith("ctx."):
        return got == (item[4:], idx)
    if stack == "torch":
        return got == ("t" + item, idx)
    if stack == "xt-fused" and item == "x":
        return isinstance(got, tuple) and len(got) == 2 and got[0] == "xt" and got[1][0] == "x" and got[1][1] == idx
    return isinstance(got, tuple) and len(got) == 3 and got[0] == item and got[1] == idx


def nonce_of(stack, item, got):
    if stack == "xt-fused" and item == "x":
        return got[1][2]
    return got[2]


def check_sample(stack, items, got, idx, return_ctx):
    if return_ctx:
        if not (isinstance(got, tuple) and len(got) == 2 and isinstance(got[1], dict)):
            return fail("(items, ctx) expected")
        sample, ctx = got
        for k in ctx:
            v = ctx[k]
            if not (v[0] == k and v[1] == idx):
                return fail("ctx carries an entry that does not belong to this sample")
    else:
        sample = got
    if len(items) == 1:
        vals = [sample]
    else:
        if not (isinstance(sample, tuple) and len(sample) == len(items)):
            return fail("tuple of len(items) expected")
        vals = list(sample)
    for it, v in zip(items, vals):
        if not item_kind_ok(stack, it, v, idx):
            return fail("position does not hold the requested item of this sample")
    # a fused group fully present is loaded once: equal nonce
    for g in groups_of(stack):
        if all(op in items for op in g):
            ns = [nonce_of(stack, op, vals[items.index(op)]) for op in g]
            if any(x != ns[0] for x in ns):
                return fail("jointly loaded items come from different loads")
    return True


def body_getitem(cfg, n, i, j, return_ctx):
    """cfg = (stack, mode)"""
    stack, mode = cfg
    items = mode.split(" ")
    try:
        ds = build_stack(stack, n)
        try:
            mw = ModeWrapper(ds, mode=mode, return_ctx=return_ctx)
        except AssertionError:
            if stack == "forward-over-fused" and any(it != "index" and not it.startswith("ctx.") for it in items):
                return True  # items not implemented on the outermost wrapper of a fused stack: rejected
            return fail("constructor rejected a mode of the stated domain")
        if stack == "forward-over-fused" and any(it != "index" and not it.startswith("ctx.") for it in items):
            return fail("constructor accepted a fused stack whose outermost wrapper does not implement the items")
        if len(mw) != n:
            return fail("len")
        mw[j]  # an arbitrary preceding access
        got = mw[i]
    except Exception as e:
        return fail("exception " + type(e).__name__)
    idx = i if i >= 0 else i + n
    return check_sample(stack, items, got, idx, return_ctx)


def body_slice(cfg, a, b):
    """cfg = (stack, mode, step, n) ; a/b == 9 stands for None"""
    stack, mode, c, n = cfg
    items = mode.split(" ")
    sl = slice(None if a == 9 else a, None if b == 9 else b, c)
    try:
        mw = ModeWrapper(build_stack(stack, n), mode=mode)
        got = mw[sl]
        want = list(range(n))[sl]
    except Exception as e:
        return fail("exception " + type(e).__name__)
    if not (isinstance(got, list) and len(got) == len(want)):
        return fail("slice length differs from Python sequence semantics")
    for g, w in zip(got, want):
        if not check_sample(stack, items, g, w, False):
            return False
    return True


def body_list_iter(cfg, n, i0, i1, i2):
    """index list, iteration and len. cfg = (stack, mode)"""
    stack, mode = cfg
    items = mode.split(" ")
    try:
        mw = ModeWrapper(build_stack(stack, n), mode=mode)
        got = mw[[i0, i1, i2]]
        it = []
        for s in mw:
            if len(it) > n:
                return fail("iteration does not end")
            it.append(s)
        ln = len(mw)
    except Exception as e:
        return fail("exception " + type(e).__name__)
    if ln != n or len(it) != n:
        return fail("len / iteration length")
    if not (isinstance(got, list) and len(got) == 3):
        return fail("index list")
    for g, w in zip(got, (i0, i1, i2)):
        if not check_sample(stack, items, g, w if w >= 0 else w + n, False):
            return False
    for k, s in enumerate(it):
        if not check_sample(stack, items, s, k, False):
            return False
    return True


def body_static(cfg, k, v, w):
    """static helpers on a collated batch. cfg = mode; k selects the item, v/w are values"""
    mode = cfg
    items = mode.split(" ")
    item = items[k]
    batch = tuple(("b", it) for it in items)
    try:
        if not ModeWrapper.has_item(mode, item) or ModeWrapper.has_item(mode, "nope"):
            return fail("has_item")
        if ModeWrapper.get_item_index(mode, item) != k:
            return fail("get_item_index")
        if ModeWrapper.add_item(mode, item) != mode:
            return fail("add_item of a present item changes the mode")
        m2 = ModeWrapper.add_item(mode, "new")
        if m2.split(" ") != items + ["new"]:
            return fail("add_item")
        if ModeWrapper.get_item(mode, item, batch) != ("b", item):
            return fail("get_item")
        b2 = ModeWrapper.set_item(mode, item, batch, v)
        if ModeWrapper.get_item(mode, item, b2) != v:
            return fail("get(set(v)) != v")
        for q, it in enumerate(items):
            if q != k and b2[q] != batch[q]:
                return fail("set_item touched another position")
        b3 = ModeWrapper.set_item(mode, item, b2, w)
        if b3 != ModeWrapper.set_item(mode, item, batch, w):
            return fail("set_item compounding")
        if len(items) == 1 and ModeWrapper.get_item(mode, item, v) != v:
            return fail("bare single-item batch")
    except Exception as e:
        return fail("exception " + type(e).__name__)
    return True


def valid_modes(L, alphabet=ALPHABET):
    out = []
    for l in range(1, L + 1):
        for perm in itertools.permutations(alphabet, l):
            ok = True
            for p, it in enumerate(perm):
                if it in RECORDER and RECORDER[it] not in perm[:p]:
                    ok = False
            if ok:
                out.append(" ".join(perm))
    return out


def stack_modes(stack, L):
    if stack == "torch":
        return [m for m in valid_modes(min(L, 3), ["x", "class", "index"])]
    if stack == "fused2":
        return valid_modes(L, ["x", "class", "y", "z", "index", "ctx.kx"])
    return valid_modes(L)


def with_multi_ctx(stack, modes):
    if stack in ("torch",):
        return modes
    return modes + [m for m in MULTI_CTX if m not in modes]


def conditions(tier, rng):
    H = "harness.c01"
    q = tier == "quick"
    to = 300 if q else 900
    L = 3 if q else 4
    conds = []
    for stack in STACKS:
        modes = stack_modes(stack, L)
        if q and stack in ("plain", "forward", "forward-over-fused"):
            modes = rng.sample(modes, min(len(modes), 30))
        if q and stack in ("fused2",):
            modes = rng.sample(modes, min(len(modes), 60))
        if not q and len(modes) > 400:
            short = [m for m in modes if len(m.split(" ")) <= 3]
            long_ = [m for m in modes if len(m.split(" ")) > 3]
            modes = short + rng.sample(long_, 400 - len(short) if len(short) < 400 else 0)
        for mode in with_multi_ctx(stack, modes):
            conds.append(Cond(
                name=f"getitem[{stack};{mode}]", harness=H, body="body_getitem", cfg=(stack, mode),
                params=[("n", "int"), ("i", "int"), ("j", "int"), ("return_ctx", "bool")],
                pre=["n >= 1", "-n <= i < n", "0 <= j < n"], timeout=to, group=f"getitem-{stack}", cost=1, twin=stack != "forward-over-fused" or True,
                bounds="n unbounded, i in [-n,n), one preceding access j, return_ctx symbolic"))
    seq_modes = {"plain": ["x", "index x"], "fused": ["class x", "x index class"], "xt-fused": ["class x"], "torch": ["class x"]}
    for stack, modes in seq_modes.items():
        for mode in modes:
            for c in ((None, 2, -1) if q else (None, 1, 2, 3, -1, -2, -3)):
                for n in (1, 2, 3, 4):
                    if q and (n + (c or 0)) % 2 == 0:
                        continue
                    conds.append(Cond(
                        name=f"slice[{stack};{mode};n={n};step={c}]", harness=H, body="body_slice", cfg=(stack, mode, c, n),
                        params=[("a", "int"), ("b", "int")],
                        pre=["-5 <= a <= 5 or a == 9", "-5 <= b <= 5 or b == 9"], timeout=to, group="slice", cost=30,
                        bounds="n<=4 and step enumerated, slice bounds in [-5,5] or None symbolic"))
            conds.append(Cond(
                name=f"list-iter-len[{stack};{mode}]", harness=H, body="body_list_iter", cfg=(stack, mode),
                params=[("n", "int"), ("i0", "int"), ("i1", "int"), ("i2", "int")],
                pre=["1 <= n <= 4", "-n <= i0 < n", "-n <= i1 < n", "-n <= i2 < n"], timeout=to, group="list-iter-len", cost=30,
                bounds="n<=4, index list of 3 symbolic entries in [-n,n), full iteration, len"))
    for mode in ["x", "x class", "index x class", "class ctx.kclass x index"]:
        nm = len(mode.split(" "))
        conds.append(Cond(
            name=f"static[{mode}]", harness=H, body="body_static", cfg=mode,
            params=[("k", "int"), ("v", "int"), ("w", "int")], pre=[f"0 <= k < {nm}"], timeout=to, group="static-helpers", cost=2,
            bounds="item selector and values symbolic"))
    return conds
