"""C19 - in-memory cache is transparent for every access history."""
import copy
import importlib

from vf.common import fail, patched
from vf.engine import Cond
from kappadata.caching.shared_dict_dataset import SharedDictDataset
SD_MOD = importlib.import_module("kappadata.caching.shared_dict_dataset")
from kappadata.caching.cached_dataset import CachedDataset

MANIFEST_LEVEL = "The solver decides every path of the real SharedDictDataset/CachedDataset accessors over symbolic access histories (gets and clears of enumerated length, symbolic indices) against a load-counting base dataset, and over symbolic interference of other processes (insertions of correct entries and clears between any two dict operations of one access). No unit test exists for this module."
MANIFEST_NOTE = "Trusted: CrossHair/z3; the Manager dict is replaced by a dict whose single operations are atomic (Manager proxy contract) with arbitrary interference between them; real inter-process scheduling is outside."
MANIFEST_TECHNIQUE = "bounded symbolic execution of the real code (CrossHair on z3) over symbolic histories and a symbolic interference script; counterexamples replayed concretely"
PROPERTY = "C19"
ENCODED = [
    "kappadata.caching.shared_dict_dataset:SharedDictDataset._cached_getitem",
    "kappadata.caching.shared_dict_dataset:SharedDictDataset.dispose",
    "kappadata.caching.cached_dataset:CachedDataset.__getitem__",
    "kappadata.caching.cached_dataset:CachedDataset.__len__",
    "kappadata.caching.cached_dataset:CachedDataset.__getattr__",
]
STUBS = [
    "Base: dataset of n samples returning ('s', i, payload_i) with opaque payload tokens (in half of the conditions sample 0 is None itself), counting loads per index",
    "InterferenceDict: stands for the multiprocessing Manager dict; before each of its operations another process may insert a correct entry for an arbitrary key, or clear it (symbolic script)",
    "FakeManager: multiprocessing.Manager() replaced so that .dict() returns the harness dict (the real constructor runs, no Manager process is spawned); forked reader processes are shallow copies of the dataset object sharing that dict",
]
ASSUMPTIONS = ["every single operation of the Manager dict proxy (contains / getitem / setitem / clear) is atomic; a missing key raises KeyError",
               "indices are valid non-negative dataset indices"]
OUTSIDE = ["real OS-level scheduling of reader processes", "histories longer than the bound", "pickling of payloads (payloads are opaque tokens)"]
BOUNDS = {"quick": "n<=4 samples; histories of L symbolic operations (get(i) | clear) with (n+1)^L<=100; interference scripts of 3-4 symbolic steps, 1..2 accesses",
          "thorough": "n<=4; histories with (n+1)^L<=300 (L up to 8); interference scripts of 3-5 symbolic steps, 1..2 accesses"}


class Base:
    def __init__(self, n, payload):
        self.n = n
        self.loads = [0] * n
        self.payload = payload
        self.marker = ("attr-of-base", n)

    def __len__(self):
        return self.n

    def __getitem__(self, i):
        self.loads[i] += 1
        return sample_of(i, self.payload[i])


def sample_of(i, p):
    """payload 0 stands for a sample whose whole value is None (a legitimate, picklable payload)"""
    return None if p == 0 else ("s", i, p)


class CountingTransform:
    def __init__(self):
        self.calls = 0

    def __call__(self, s):
        self.calls += 1
        return ("t", s)


class FakeManager:
    """multiprocessing.Manager() stand-in: .dict() hands out the dict object of the harness (the
    real constructor runs; no Manager process is spawned)"""

    def __init__(self, d):
        self.d = d

    def __call__(self):
        return self

    def dict(self):
        return self.d


def mk(base, transform, d):
    with patched(SD_MOD, Manager=FakeManager(d)):
        return SharedDictDataset(base, transform=transform)


def fork_readers(c, k, d):
    """k reader processes forked from the parent before any access: shallow copies that share the
    Manager dict (a proxy to one server-side dict) and nothing else that is mutable"""
    with patched(SD_MOD, Manager=FakeManager(d)):
        return [copy.copy(c) for _ in range(k)]


def body_seq(cfg, *ops):
    """sequential history. cfg = (n, L, with_transform); ops[k] = -1 clear, else index"""
    n, L, with_t = cfg[:3]
    nreaders = cfg[3] if len(cfg) > 3 else 1
    none_idx = cfg[4] if len(cfg) > 4 else -1
    payload = [0 if k == none_idx else 10 + k for k in range(n)]  # payload 0: the sample itself is None
    base = Base(n, payload)
    t = CountingTransform() if with_t else None
    loaded_since_clear = [False] * n
    gets = 0
    try:
        shared = {}
        with patched(SD_MOD, Manager=FakeManager(shared)):
            c = SharedDictDataset(base, transform=t)
            readers = [c] if nreaders == 1 else [copy.copy(c) for _ in range(nreaders)]
            return _run_seq(c, readers, base, t, n, payload, ops, with_t)
    except Exception as e:
        return fail("exception " + type(e).__name__)


def _run_seq(c, readers, base, t, n, payload, ops, with_t):
    loaded_since_clear = [False] * n
    gets = 0
    try:
        if len(c) != n:
            return fail("len differs")
        if c.marker != ("attr-of-base", n):
            return fail("attribute delegation")
        for step, o in enumerate(ops):
            c = readers[step % len(readers)]  # operation k is performed by reader process k mod #readers
            if o == -1:
                c.dispose()
                loaded_since_clear = [False] * n
                continue
            before = base.loads[o]
            got = c[o]
            gets += 1
            want = sample_of(o, payload[o])
            if with_t:
                want = ("t", want)
            if got != want:
                return fail("cached value differs from the wrapped dataset")
            d = base.loads[o] - before
            if loaded_since_clear[o] and d != 0:
                return fail("sample loaded again although no clear happened")
            if not loaded_since_clear[o] and d != 1:
                return fail("sample not loaded after a clear / first access")
            loaded_since_clear[o] = True
        if with_t and t.calls != gets:
            return fail("post-cache transform not applied on every access")
    except Exception as e:
        return fail("exception " + type(e).__name__)
    return True


class InterferenceDict(dict):
    """dict shared with other processes: before each operation another process may act"""

    def __init__(self, script, truth):
        super().__init__()
        self.script = list(script)
        self.truth = truth
        self.k = 0

    def _interfere(self):
        if self.k < len(self.script):
            a = self.script[self.k]
            self.k += 1
            if a == -1:
                dict.clear(self)
            elif a >= 0:
                dict.__setitem__(self, a, self.truth(a))  # another reader cached the correct sample

    def __contains__(self, key):
        self._interfere()
        return dict.__contains__(self, key)

    def __getitem__(self, key):
        self._interfere()
        return dict.__getitem__(self, key)

    def __setitem__(self, key, v):
        self._interfere()
        dict.__setitem__(self, key, v)

    def get(self, key, default=None):
        self._interfere()
        return dict.get(self, key, default)

    def setdefault(self, key, default=None):
        self._interfere()
        return dict.setdefault(self, key, default)

    def clear(self):
        self._interfere()
        dict.clear(self)


def body_shared(cfg, *rest):
    """cfg = (n, accesses); rest = indices of our accesses followed by the interference script
    (-2 nothing, -1 clear, k>=0 another process inserts the correct entry k)"""
    n, acc = cfg[:2]
    none_idx = cfg[2] if len(cfg) > 2 else -1
    payload = [0 if k == none_idx else 10 + k for k in range(n)]
    idxs = rest[:acc]
    script = rest[acc:]
    base = Base(n, payload)
    d = InterferenceDict(script, lambda k: sample_of(k, payload[k]))
    c = mk(base, None, d)
    try:
        for i in idxs:
            if c[i] != sample_of(i, payload[i]):
                return fail("reader observed a value different from the wrapped dataset")
    except Exception as e:
        return fail("exception escapes under interference: " + type(e).__name__)
    return True


def conditions(tier, rng):
    H = "harness.c19"
    q = tier == "quick"
    to = 600 if q else 1800
    conds = []
    cap = 100 if q else 300  # (n+1)^L leaf histories per condition
    for n in (1, 2, 3, 4):
        for L in range(1, 10):
            if (n + 1) ** L > cap:
                continue
            for with_t in (False, True):
                if q and with_t != (L % 2 == 1):
                    continue
                if L >= 2 and (not q or with_t):
                    conds.append(Cond(
                        name=f"seq-2readers[n={n},L={L},transform={int(with_t)}]", harness=H, body="body_seq", cfg=(n, L, with_t, 2, 0 if L % 2 else -1),
                        params=[(f"o{k}", "int") for k in range(L)],
                        pre=[f"-1 <= o{k} < {n}" for k in range(L)], timeout=to, group="sequential-history-two-forked-readers", cost=(n + 1) ** L,
                        bounds=f"{n} samples, {L} symbolic operations performed alternately by two reader processes forked before the first access"))
                conds.append(Cond(
                    name=f"seq[n={n},L={L},transform={int(with_t)}]", harness=H, body="body_seq", cfg=(n, L, with_t, 1, 0 if (L + n) % 2 else -1),
                    params=[(f"o{k}", "int") for k in range(L)],
                    pre=[f"-1 <= o{k} < {n}" for k in range(L)], timeout=to, group="sequential-history", cost=(n + 1) ** L,
                    bounds=f"{n} samples, history of {L} symbolic operations, opaque payloads (sample 0 may be None)"))
    for n in (1, 2, 3):
        for acc, S in (((1, 3), (2, 4)) if q else ((1, 3), (1, 4), (2, 4), (2, 5))):
            if acc == 2 and (n + 2) ** S * n * n > (700 if q else 5000):
                continue
            conds.append(Cond(
                name=f"shared[n={n},accesses={acc},script={S}]", harness=H, body="body_shared", cfg=(n, acc, 0 if n % 2 else -1),
                params=[(f"i{k}", "int") for k in range(acc)] + [(f"s{k}", "int") for k in range(S)],
                pre=[f"0 <= i{k} < {n}" for k in range(acc)] + [f"-2 <= s{k} < {n}" for k in range(S)],
                timeout=to, group="shared-with-interference", cost=(n + 2) ** S * n ** acc,
                bounds=f"{n} samples, {acc} accesses of this reader, {S} symbolic interference steps (insert correct entry | clear | nothing) before successive dict operations"))
    return conds
