"""C15 - strength scaling interpolates from identity to the configured augmentation."""
from vf.common import fail
from vf.engine import Cond
from kappadata.transforms.base.kd_transform import KDTransform
from kappadata.transforms.base.kd_compose_transform import KDComposeTransform
from kappadata.transforms.base.kd_scheduled_transform import KDScheduledTransform
from kappadata.transforms.kd_color_jitter import KDColorJitter
from kappadata.transforms.kd_random_color_jitter import KDRandomColorJitter
from kappadata.transforms.kd_gaussian_blur_pil import KDGaussianBlurPIL
from kappadata.transforms.kd_gaussian_blur_tv import KDGaussianBlurTV
from kappadata.transforms.kd_random_gaussian_blur_pil import KDRandomGaussianBlurPIL
from kappadata.transforms.kd_random_gaussian_blur_tv import KDRandomGaussianBlurTV
from kappadata.transforms.kd_solarize import KDSolarize
from kappadata.transforms.kd_random_solarize import KDRandomSolarize
from kappadata.transforms.kd_random_grayscale import KDRandomGrayscale
from kappadata.transforms.kd_random_rotation import KDRandomRotation
from kappadata.transforms.kd_threshold import KDThreshold
from kappadata.transforms.kd_random_threshold import KDRandomThreshold
from kappadata.transforms.kd_additive_gaussian_noise import KDAdditiveGaussianNoise
from kappadata.transforms.kd_additive_uniform_noise import KDAdditiveUniformNoise
from kappadata.transforms.kd_random_additive_gaussian_noise import KDRandomAdditiveGaussianNoise
from kappadata.transforms.kd_rand_augment import KDRandAugment
from kappadata.utils.magnitude_sampler import MagnitudeSampler
import kappadata.transforms as T

MANIFEST_LEVEL = "Every _scale_strength in the package (16 transforms, the magnitude sampler, the compose container) is executed symbolically over the reals: the constructed ranges are symbolic (set on a really constructed instance under the constructor's own pre-processing contract), the factors f1 <= f2 in [0,1] are symbolic, and the solver decides scale(1) == constructed, scale(0) == weakest/identity, monotone movement of every bound, and absence of compounding, also through wrappers and a two-level compose. The scheduled transform's global-batch arithmetic and n_batches computation are decided for symbolic worker count, batch size, rank, per-worker sample position and budgets. The existing tests never call a real transform's scaling formula."
MANIFEST_NOTE = "Trusted: CrossHair/z3 with floats modelled as reals (rounding is outside: 'restores exactly' is claimed over the reals); DataLoader round-robin batch->worker assignment is the assumed contract; partial final batches are outside (excluded by the property)."
MANIFEST_TECHNIQUE = "bounded symbolic execution of the real _scale_strength / scheduling code over real-valued symbolic ranges and factors (CrossHair on z3)"
PROPERTY = "C15"
ENCODED = [
    "kappadata.transforms.base.kd_transform:KDTransform.scale_strength",
    "kappadata.transforms.kd_color_jitter:KDColorJitter._scale_strength",
    "kappadata.transforms.kd_random_color_jitter:KDRandomColorJitter._scale_strength",
    "kappadata.transforms.kd_gaussian_blur_pil:KDGaussianBlurPIL._scale_strength",
    "kappadata.transforms.kd_gaussian_blur_tv:KDGaussianBlurTV._scale_strength",
    "kappadata.transforms.kd_solarize:KDSolarize._scale_strength",
    "kappadata.transforms.kd_random_solarize:KDRandomSolarize._scale_strength",
    "kappadata.transforms.kd_random_grayscale:KDRandomGrayscale._scale_strength",
    "kappadata.transforms.kd_random_rotation:KDRandomRotation._scale_strength",
    "kappadata.transforms.kd_threshold:KDThreshold._scale_strength",
    "kappadata.transforms.kd_rand_augment:KDRandAugment._scale_strength",
    "kappadata.transforms.kd_additive_gaussian_noise:KDAdditiveGaussianNoise._scale_strength",
    "kappadata.transforms.base.kd_compose_transform:KDComposeTransform._scale_strength",
    "kappadata.utils.magnitude_sampler:MagnitudeSampler.scale_strength",
    "kappadata.transforms.base.kd_scheduled_transform:KDScheduledTransform.__call__",
    "kappadata.transforms.base.kd_scheduled_transform:KDScheduledTransform._worker_init_fn",
]
STUBS = ["instances are really constructed with concrete arguments; their og_*/current numeric parameters are then overwritten with symbolic reals that satisfy what the constructor's pre-processing guarantees (e.g. brightness range [max(0,1-b), 1+b])",
         "ProbeSchedule (value = step/(total+1)) and ProbeTransform (records the last factor) for the scheduled transform"]
ASSUMPTIONS = ["floats are real numbers", "DataLoader hands batch b to worker b mod W and workers process their batches in order, every batch full"]
OUTSIDE = ["binary64 rounding", "partial final batches", "pixel kernels"]
BOUNDS = {"quick": "symbolic ranges: brightness (min,max) with 0<=min<=max<=3, contrast/saturation jitter b in [0,3], hue h in [0,0.5], sigma 0<=lb<=ub<=10, thresholds in [0,1] / 0..256, p in [0,1], degrees in [0,180], magnitudes in [0,10]; factors 0<=f1<=f2<=1 symbolic; scheduled: W<=4, B<=4, 3 batches per worker",
          "thorough": "same symbolic ranges (they are real-valued and unbounded within the stated intervals); scheduled: W<=6, B<=6, 4 batches per worker"}


# ---- parameter access --------------------------------------------------------------------------
def leaves(t):
    """(object, [numeric attribute names]) pairs of a transform and its members"""
    out = []
    if isinstance(t, KDColorJitter):
        out.append((t, ["brightness_lb", "brightness_ub", "contrast_lb", "contrast_ub", "saturation_lb", "saturation_ub", "hue_lb", "hue_ub"]))
    elif isinstance(t, (KDGaussianBlurPIL, KDGaussianBlurTV)):
        out.append((t, ["sigma_lb", "sigma_ub"]))
    elif isinstance(t, KDSolarize):
        out.append((t, ["threshold"]))
    elif isinstance(t, KDRandomGrayscale):
        out.append((t, ["p"]))
    elif isinstance(t, KDRandomRotation):
        out.append((t, ["degree_lb", "degree_ub"]))
    elif isinstance(t, MagnitudeSampler):
        out.append((t, ["magnitude", "magnitude_std", "magnitude_min", "magnitude_max"]))
    elif isinstance(t, KDComposeTransform):
        for m in t.transforms:
            out += leaves(m)
    else:
        for name in ("color_jitter", "gaussian_blur", "solarize", "threshold", "noise", "magnitude_sampler"):
            m = t.__dict__.get(name)
            if m is not None and not isinstance(m, (int, float)):
                out += leaves(m)
    return out


def snapshot(t):
    return [getattr(o, a) for o, names in leaves(t) for a in names]


def set_cj(cj, blo, bhi, b2, h):
    # brightness given as an asymmetric (min, max) tuple (torchvision accepts any 0 <= min <= max),
    # contrast / saturation as a scalar jitter b: [max(0, 1-b), 1+b]
    cj.brightness_lb = cj.og_brightness_lb = blo
    cj.brightness_ub = cj.og_brightness_ub = bhi
    for name, b in (("contrast", b2), ("saturation", b2)):
        lb = max(0, 1 - b)
        setattr(cj, name + "_lb", lb)
        setattr(cj, "og_" + name + "_lb", lb)
        setattr(cj, name + "_ub", 1 + b)
        setattr(cj, "og_" + name + "_ub", 1 + b)
    cj.hue_lb = cj.og_hue_lb = -h
    cj.hue_ub = cj.og_hue_ub = h


def set_blur(g, lb, ub):
    g.sigma_lb = lb
    g.sigma_ub = g.og_sigma_ub = ub


def set_ms(ms, m, std, mn, mx):
    ms.magnitude = ms.og_magnitude = m
    ms.magnitude_std = ms.og_magnitude_std = std
    ms.magnitude_min = ms.og_magnitude_min = mn
    ms.magnitude_max = ms.og_magnitude_max = mx


def build(kind, a, b, c, d):
    """really construct the transform, then install the symbolic ranges; returns (transform, identity snapshot or None)"""
    if kind in ("colorjitter", "random-colorjitter", "compose2"):
        if not (0 <= a <= b <= 3 and 0 <= c <= 3 and 0 <= d <= 0.5):
            return None
        if kind == "colorjitter":
            t = KDColorJitter(brightness=0.4, contrast=0.4, saturation=0.2, hue=0.1)
            set_cj(t, a, b, c, d)
            return t, [1, 1, 1, 1, 1, 1, 0, 0]
        if kind == "random-colorjitter":
            t = KDRandomColorJitter(p=0.8, brightness=0.4, contrast=0.4, saturation=0.2, hue=0.1)
            set_cj(t.color_jitter, a, b, c, d)
            return t, [1, 1, 1, 1, 1, 1, 0, 0]
        inner = KDComposeTransform([KDRandomGrayscale(p=0.2), KDColorJitter(brightness=0.4, contrast=0.4, saturation=0.2, hue=0.1)])
        t = KDComposeTransform([KDGaussianBlurPIL(sigma=(0.1, 2.0)), inner])
        set_cj(inner.transforms[1], a, b, c, d)
        return t, None
    if kind in ("blur-pil", "blur-tv", "random-blur-pil", "random-blur-tv"):
        if not (0 <= a <= b <= 10):
            return None
        if kind == "blur-pil":
            t = KDGaussianBlurPIL(sigma=(0.1, 2.0))
            g = t
        elif kind == "blur-tv":
            t = KDGaussianBlurTV(kernel_size=3, sigma=(0.1, 2.0))
            g = t
        elif kind == "random-blur-pil":
            t = KDRandomGaussianBlurPIL(p=0.5, sigma=(0.1, 2.0))
            g = t.gaussian_blur
        else:
            t = KDRandomGaussianBlurTV(p=0.5, kernel_size=3, sigma=(0.1, 2.0))
            g = t.gaussian_blur
        set_blur(g, a, b)
        return t, [a, a]
    if kind in ("solarize-float", "random-solarize-float"):
        if not (0 <= a <= 1):
            return None
        t = KDSolarize(threshold=0.5) if kind == "solarize-float" else KDRandomSolarize(p=0.5, threshold=0.5)
        s = t if kind == "solarize-float" else t.solarize
        s.threshold = s.og_threshold = a
        return t, [1]
    if kind == "grayscale":
        if not (0 <= a <= 1):
            return None
        t = KDRandomGrayscale(p=0.2)
        t.p = t.og_p = a
        return t, [0]
    if kind == "rotation":
        if not (0 <= a <= 180):
            return None
        t = KDRandomRotation(degrees=30)
        t.degree_lb = t.og_degree_lb = -a
        t.degree_ub = t.og_degree_ub = a
        return t, [0, 0]
    if kind in ("magnitude", "threshold", "random-threshold", "gauss-noise", "uniform-noise", "random-gauss-noise", "randaug"):
        if not (0 <= c <= a <= d <= 10 and 0 <= b <= 10):
            return None
        if kind == "magnitude":
            t = MagnitudeSampler(magnitude=0.5, magnitude_std=0.1, magnitude_min=0.1, magnitude_max=0.9)
            ms = t
        elif kind == "threshold":
            t = KDThreshold(threshold=0.5, threshold_std=0.1)
            ms = t.magnitude_sampler
        elif kind == "random-threshold":
            t = KDRandomThreshold(p=0.5, threshold=0.5, threshold_std=0.1)
            ms = t.threshold.magnitude_sampler
        elif kind == "gauss-noise":
            t = KDAdditiveGaussianNoise(std=1.0, magnitude=0.5, magnitude_std=0.1)
            ms = t.magnitude_sampler
        elif kind == "uniform-noise":
            t = KDAdditiveUniformNoise(magnitude=0.5, magnitude_std=0.1)
            ms = t.magnitude_sampler
        elif kind == "random-gauss-noise":
            t = KDRandomAdditiveGaussianNoise(p=0.5, std=1.0, magnitude=0.5, magnitude_std=0.1)
            ms = t.noise.magnitude_sampler
        else:
            t = KDRandAugment(num_ops=2, magnitude=9, magnitude_std=0.5, interpolation="bicubic", fill_color=(124, 116, 104))
            ms = t.magnitude_sampler
        set_ms(ms, a, b, c, d)
        return t, [0, 0, 0, 0]
    raise KeyError(kind)


KINDS = ["colorjitter", "random-colorjitter", "compose2", "blur-pil", "blur-tv", "random-blur-pil", "random-blur-tv", "solarize-float",
         "random-solarize-float", "grayscale", "rotation", "magnitude", "threshold", "random-threshold", "gauss-noise", "uniform-noise",
         "random-gauss-noise", "randaug"]


def between(x, lo, hi):
    return (lo <= x <= hi) or (hi <= x <= lo)


def body_scale(cfg, a, b, c, d, f1, f2):
    """cfg = transform kind"""
    kind = cfg
    try:
        built = build(kind, a, b, c, d)
        if built is None:
            return True
        t, ident = built
        s_ctor = snapshot(t)
        if len(s_ctor) == 0:
            return fail("harness: no scalable parameter found")
        t.scale_strength(f1)
        s1 = snapshot(t)
        t.scale_strength(f2)
        s12 = snapshot(t)
        t.scale_strength(1.0)
        s_one = snapshot(t)
        t.scale_strength(0.0)
        s_zero = snapshot(t)
        t.scale_strength(f2)
        s2 = snapshot(t)
    except Exception as e:
        return fail("exception " + type(e).__name__)
    if s_one != s_ctor:
        return fail("scale_strength(1) does not restore the constructed ranges")
    if s12 != s2:
        return fail("result depends on earlier factors (compounding)")
    if ident is not None and s_zero != ident:
        return fail("scale_strength(0) does not collapse to the weakest setting")
    for p0, p1, p2, pone in zip(s_zero, s1, s2, s_one):
        if not (between(p1, p0, p2) and between(p2, p1, pone)):
            return fail("a bound does not move monotonically between its value at 0 and at 1")
    return True


def body_solarize_int(cfg, th, k1, k2):
    """PIL threshold (int in 0..256), factors k/4"""
    f1, f2 = k1 / 4, k2 / 4
    try:
        t = KDSolarize(threshold=128)
        t.threshold = t.og_threshold = th
        t.scale_strength(f1)
        a = t.threshold
        t.scale_strength(f2)
        b = t.threshold
        t.scale_strength(1.0)
        one = t.threshold
        t.scale_strength(0.0)
        zero = t.threshold
    except Exception as e:
        return fail("exception " + type(e).__name__)
    if one != th or zero != 256:
        return fail("scale(1)/scale(0) of the integer threshold")
    if not (zero >= a >= b >= one):
        return fail("integer threshold not monotone")
    return True


class ProbeSchedule:
    def get_value(self, step, total_steps):
        return step / (total_steps + 1)


class ProbeTransform(KDTransform):
    def __init__(self):
        super().__init__()
        self.last = None

    def _scale_strength(self, factor):
        self.last = factor

    def __call__(self, x, ctx=None):
        return ("out", x, self.last)


def body_scheduled(cfg, W, B, w, k, total):
    """sample number k (0-based) processed by worker w of W with batch size B: belongs to the worker's
    batch k // B, i.e. global batch (k // B) * W + w. cfg = batches per worker"""
    nb = cfg
    if not (0 <= w < W and 0 <= k < nb * B and total >= nb * W):
        return True  # the schedule covers every global batch (its value stays a valid strength)
    try:
        inner = ProbeTransform()
        t = KDScheduledTransform(inner)
        t.schedule = ProbeSchedule()
        t._worker_init_fn(rank=w, num_workers=W, batch_size=B, updates=total)
        out = None
        ctx = None
        for j in range(k + 1):
            ctx = {}
            out = t(("img", j), ctx)
    except Exception as e:
        return fail("exception " + type(e).__name__)
    gb = (k // B) * W + w
    want = gb / (total + 1)
    if inner.last != want:
        return fail("sample scaled with the schedule value of another global batch")
    if ctx.get(t.ctx_key) != want:
        return fail("context does not report the applied strength")
    if out != ("out", ("img", k), want):
        return fail("inner transform not applied with the scheduled strength")
    return True


def body_nbatches(cfg, B, n, ws, drop_last, v):
    """n_batches arithmetic for the three budget kinds. cfg = kind"""
    kind = cfg
    try:
        t = KDScheduledTransform(ProbeTransform())
        if kind == "epochs":
            t._worker_init_fn(rank=0, num_workers=1, batch_size=B, dataset_len=n, world_size=ws, drop_last=drop_last, epochs=v)
            per = n // ws
            bpe = per // B if drop_last else -(-per // B)
            want = v * bpe
        elif kind == "updates":
            t._worker_init_fn(rank=0, num_workers=1, batch_size=B, updates=v)
            want = v
        else:
            t._worker_init_fn(rank=0, num_workers=1, batch_size=B, samples=v)
            want = -(-v // B)
    except Exception as e:
        return fail("exception " + type(e).__name__)
    return t.n_batches == want or fail("n_batches differs from its specification")


def conditions(tier, rng):
    H = "harness.c15"
    q = tier == "quick"
    to = 600 if q else 1800
    conds = []
    for kind in KINDS:
        conds.append(Cond(
            name=f"scale[{kind}]", harness=H, body="body_scale", cfg=kind,
            params=[("a", "float"), ("b", "float"), ("c", "float"), ("d", "float"), ("f1", "float"), ("f2", "float")],
            pre=["0.0 <= f1 <= f2 <= 1.0", "-1.0 <= a <= 200.0", "-1.0 <= b <= 200.0", "-1.0 <= c <= 200.0", "-1.0 <= d <= 200.0"],
            timeout=to, floats=True, group="scale-strength-laws", cost=10,
            bounds="constructed ranges and factors f1<=f2 symbolic reals within the transform's documented parameter domain"))
    conds.append(Cond(name="scale[solarize-int]", harness=H, body="body_solarize_int", cfg=None,
                      params=[("th", "int"), ("k1", "int"), ("k2", "int")], pre=["0 <= th <= 256", "th % 16 == 0", "0 <= k1 <= k2 <= 4"], timeout=to, floats=True,
                      group="scale-strength-laws", cost=30, bounds="integer threshold in {0,16,..,256} symbolic, factors k/4"))
    for nb in ((3,) if q else (3, 4)):
        conds.append(Cond(name=f"scheduled[batches-per-worker={nb}]", harness=H, body="body_scheduled", cfg=nb,
                          params=[("W", "int"), ("B", "int"), ("w", "int"), ("k", "int"), ("total", "int")],
                          pre=[f"1 <= W <= {4 if q else 6}", f"1 <= B <= {4 if q else 6}", "0 <= w", "0 <= k", "1 <= total <= 1000"], timeout=to, floats=True,
                          group="scheduled-transform", cost=60, bounds="worker count, batch size, rank, per-worker sample position and schedule length symbolic"))
    for kind in ("epochs", "updates", "samples"):
        conds.append(Cond(name=f"n-batches[{kind}]", harness=H, body="body_nbatches", cfg=kind,
                          params=[("B", "int"), ("n", "int"), ("ws", "int"), ("drop_last", "bool"), ("v", "int")],
                          pre=["1 <= B <= 64", "1 <= n <= 100000", "1 <= ws <= 8", "0 <= v <= 100000"], timeout=to, group="scheduled-transform", cost=5,
                          bounds="batch size, dataset length, world size, budget symbolic"))
    return conds
