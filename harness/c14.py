"""C14 - geometric transforms stay in bounds and their recorded parameters tell the truth."""
import importlib
import math as real_math

import numpy as real_np

from vf.common import fail, patched, CappedRange, sym_round
from vf.engine import Cond
from harness.scriptrng import ScriptRng, ApproxMath, AssumptionFailed, ScriptExhausted

RC = importlib.import_module("kappadata.transforms.kd_random_crop")
RRC = importlib.import_module("kappadata.transforms.kd_random_resized_crop")
SIMPLE = importlib.import_module("kappadata.transforms.kd_simple_random_crop")
RE = importlib.import_module("kappadata.transforms.kd_random_erasing")
SRC = importlib.import_module("kappadata.transforms.semseg.kd_semseg_random_crop")
SPAD = importlib.import_module("kappadata.transforms.semseg.kd_semseg_pad")
SRR = importlib.import_module("kappadata.transforms.semseg.kd_semseg_random_resize")
SHF = importlib.import_module("kappadata.transforms.semseg.kd_semseg_random_horizontal_flip")
TRC = importlib.import_module("kappadata.transforms.kd_two_random_crop")

MANIFEST_LEVEL = "The parameter arithmetic of the crop / resized-crop / erase / pad / resize / flip transforms runs symbolically with unbounded symbolic image sizes, symbolic target sizes and contract-only random draws (exp/sqrt over-approximated by arbitrary positive / non-negative reals); pixel kernels are recorders, so the solver decides for every input size and every draw that the geometry handed to the kernel lies inside the image, has the requested output size, equals what the context records, and is identical for image and mask in the paired transforms. Tests use 32x32 inputs and one seed."
MANIFEST_NOTE = "Trusted: CrossHair/z3; floats are reals; retry loops are cut to 2 iterations (iterations carry no state); pixel kernels (crop, resized_crop, pad, resize, hflip, masked assignment) are recorders. Outside: patchify/unpatchify and normalise/denormalise inverse laws, spec-augment masks and interpolation results (einops / torch kernels: with concrete shapes nothing symbolic remains)."
MANIFEST_TECHNIQUE = "bounded symbolic execution of the real parameter kernels (CrossHair on z3) with unbounded symbolic sizes and a contract-only RNG"
PROPERTY = "C14"
ENCODED = [
    "kappadata.transforms.kd_random_crop:KDRandomCrop.__call__",
    "kappadata.transforms.kd_random_crop:KDRandomCrop._pad_image",
    "kappadata.transforms.kd_random_crop:KDRandomCrop.get_params",
    "kappadata.transforms.kd_simple_random_crop:KDSimpleRandomCrop.__call__",
    "kappadata.transforms.kd_simple_random_crop:KDSimpleRandomCrop.set_rng",
    "kappadata.transforms.kd_random_resized_crop:KDRandomResizedCrop.__call__",
    "kappadata.transforms.kd_random_resized_crop:KDRandomResizedCrop.get_params",
    "kappadata.transforms.kd_random_erasing:KDRandomErasing.forward",
    "kappadata.transforms.semseg.kd_semseg_random_crop:KDSemsegRandomCrop.__call__",
    "kappadata.transforms.semseg.kd_semseg_random_crop:KDSemsegRandomCrop.get_params",
    "kappadata.transforms.semseg.kd_semseg_pad:KDSemsegPad.__call__",
    "kappadata.transforms.semseg.kd_semseg_random_resize:KDSemsegRandomResize.__call__",
    "kappadata.transforms.semseg.kd_semseg_random_resize:KDSemsegRandomResize.get_params",
    "kappadata.transforms.semseg.kd_semseg_random_horizontal_flip:KDSemsegRandomHorizontalFlip.forward",
]
STUBS = ["Img: image stand-in that only has a size (and, for tensors, a shape) and records the kernel calls applied to it",
         "ScriptRng: every draw is a harness argument assumed into the documented range of the call",
         "ApproxMath: exp(x) = arbitrary positive real, sqrt(x) = arbitrary non-negative real (sound over-approximation for bounds)",
         "range capped at 1 iteration inside the retry loops (one try, then the fallback path; tries carry no state)"]
ASSUMPTIONS = ["floats are reals", "retry-loop iterations are independent (one unrolling stands for any try)"]
OUTSIDE = ["patchify/unpatchify, patch shuffles and normalise/denormalise inverse laws", "KDSpecAugment masks", "interpolation / pixel results", "max_category_ratio retry of the segmentation crop (needs label statistics of real tensors)", "KDSemsegRandomResize: its scale computation divides symbolic sizes by symbolic sizes; the condition (body_semseg_resize, kept in the harness) was not decided by z3 within the budget and is not registered", "torchvision's default ratio (3/4, 4/3): z3 did not decide the condition within 600 s because of the non-dyadic constants; ratios (1,1) and (0.5,2) with scales (0.5,1) / (0.2,1) are used instead", "the error domain of KDRandomCrop (image more than one pixel smaller than the target): its message is an f-string over the sizes, which realises them; the bounded condition did not exhaust within 600 s and is not registered"]
BOUNDS = {"quick": "image width/height >= 1 unbounded, target sizes >= 1 unbounded, all draws symbolic; segmentation random crop with sizes <= 6 (its 1-element draw is realised)",
          "thorough": "same (the conditions are unbounded); segmentation random crop with sizes <= 9"}


class Img:
    """image stand-in: size only; kernels return new stand-ins and log (kernel, args)"""

    def __init__(self, w, h, log, tag="img"):
        self.w, self.h, self.log, self.tag = w, h, log, tag
        self.shape = (3, h, w)
        self.height, self.width = h, w

    def __setitem__(self, key, value):
        self.log.append(("setitem", self.tag, key))


def k_size(img):
    return [img.w, img.h]


def k_pad(img, padding, fill=0, padding_mode="constant"):
    if isinstance(padding, int):
        l = t = r = b = padding
    elif len(padding) == 2:
        l, t = padding
        r, b = padding
    else:
        l, t, r, b = padding
    img.log.append(("pad", img.tag, (l, t, r, b), fill))
    return Img(img.w + l + r, img.h + t + b, img.log, img.tag)


def k_crop(img, top, left, height, width):
    img.log.append(("crop", img.tag, (top, left, height, width), (img.w, img.h)))
    return Img(width, height, img.log, img.tag)


def k_resized_crop(img, top, left, height, width, size, interpolation=None):
    img.log.append(("resized_crop", img.tag, (top, left, height, width), (img.w, img.h), tuple(size)))
    return Img(size[1], size[0], img.log, img.tag)


def k_resize(img, size, interpolation=None):
    img.log.append(("resize", img.tag, tuple(size)))
    return Img(size[1], size[0], img.log, img.tag)


def k_hflip(img):
    img.log.append(("hflip", img.tag))
    return img


def in_bounds(top, left, h, w, W, H):
    return 0 <= top and 0 <= left and h >= 1 and w >= 1 and top + h <= H and left + w <= W


def body_random_crop(cfg, W, H, th, tw, pad_if_needed, d0, d1):
    try:
        t = RC.KDRandomCrop(size=(th, tw), pad_if_needed=pad_if_needed)
        t.set_rng(ScriptRng(ints=[d0, d1]))
        log = []
        ctx = {}
        with patched(RC, get_image_size=k_size, pad=k_pad, crop=k_crop):
            try:
                out = t(Img(W, H, log), ctx)
            except ValueError:
                # a crop larger than the (padded) image has to be refused, never clipped silently
                PW = max(W, tw) if pad_if_needed else W
                PH = max(H, th) if pad_if_needed else H
                return (PH < th or PW < tw) or fail("ValueError for an image that is large enough")
    except (AssumptionFailed, ScriptExhausted):
        return True
    except Exception as e:
        return fail("exception " + type(e).__name__)
    crops = [e for e in log if e[0] == "crop"]
    if len(crops) != 1:
        return fail("crop kernel not applied exactly once")
    (top, left, h, w), (PW, PH) = crops[0][2], crops[0][3]
    if pad_if_needed and (PW < tw or PH < th):
        return fail("pad_if_needed did not pad up to the target size")
    if not in_bounds(top, left, h, w, PW, PH):
        return fail("crop outside the (padded) image")
    if (h, w) != (th, tw) or (out.h, out.w) != (th, tw):
        return fail("output size differs from the requested size")
    if ctx.get("random_crop") != dict(i=top, j=left, h=h, w=w):
        return fail("context does not reproduce the applied crop")
    return True


def body_simple_crop(cfg, W, H, th, tw, p, d0, d1):
    """KDSimpleRandomCrop = resize to the target, pad by p on every side, crop the target out of the padded image"""
    try:
        t = SIMPLE.KDSimpleRandomCrop(size=(th, tw), padding=p)
        t.set_rng(ScriptRng(ints=[d0, d1]))
        # the torchvision Resize module is a pixel kernel: replaced by the size-only stand-in (exact (h, w) target given as a pair)
        t.resize = lambda x: k_resize(x, (th, tw))
        log = []
        ctx = {}
        with patched(RC, get_image_size=k_size, pad=k_pad, crop=k_crop):
            out = t(Img(W, H, log), ctx)
    except (AssumptionFailed, ScriptExhausted):
        return True
    except Exception as e:
        return fail("exception " + type(e).__name__)
    pads = [e for e in log if e[0] == "pad"]
    crops = [e for e in log if e[0] == "crop"]
    if len(pads) != 1 or pads[0][2] != (p, p, p, p):
        return fail("configured padding not applied exactly once on all four sides")
    if len(crops) != 1:
        return fail("crop kernel not applied exactly once")
    (top, left, h, w), (PW, PH) = crops[0][2], crops[0][3]
    if (PW, PH) != (tw + 2 * p, th + 2 * p):
        return fail("crop taken from something else than the resized and padded image")
    if not in_bounds(top, left, h, w, PW, PH):
        return fail("crop outside the padded image")
    if (h, w) != (th, tw) or (out.h, out.w) != (th, tw):
        return fail("output size differs from the requested size")
    if ctx.get("random_crop") != dict(i=top, j=left, h=h, w=w):
        return fail("context does not reproduce the applied crop")
    return True


def body_resized_crop(cfg, W, H, i0, i1, f0, f1, f2, f3, f4):
    """cfg = (scale, ratio, out size)"""
    scale, ratio, size = cfg
    try:
        t = RRC.KDRandomResizedCrop(size=size, scale=scale, ratio=ratio)
        rng = ScriptRng(ints=[i0, i1], floats=[f0, f1, f2, f3, f4])
        t.set_rng(rng)
        log = []
        ctx = {}
        with patched(RRC, get_image_size=k_size, resized_crop=k_resized_crop, np=ApproxMath(rng, real_np), range=CappedRange(1), round=sym_round):
            out = t(Img(W, H, log), ctx)
    except (AssumptionFailed, ScriptExhausted):
        return True
    except Exception as e:
        return fail("exception " + type(e).__name__)
    calls = [e for e in log if e[0] == "resized_crop"]
    if len(calls) != 1:
        return fail("kernel not applied exactly once")
    (top, left, h, w), (IW, IH), osize = calls[0][2], calls[0][3], calls[0][4]
    if not in_bounds(top, left, h, w, W, H):
        return fail("resized crop region outside the image or empty")
    if tuple(osize) != tuple(t.size) or (out.h, out.w) != tuple(t.size):
        return fail("output size differs from the requested size")
    if ctx.get("random_resized_crop") != dict(og_h=H, og_w=W, i=top, j=left, h=h, w=w):
        return fail("context does not reproduce the applied crop")
    return True


def body_erasing(cfg, W, H, i0, i1, f0, f1, f2, f3, f4):
    """cfg = (min_count, max_count)"""
    mn, mx = cfg
    try:
        t = RE.KDRandomErasing(p=1.0, min_count=mn, max_count=mx)
        rng = ScriptRng(ints=[i0, i1], floats=[f0, f1, f2, f3, f4])
        t.set_rng(rng)
        t._get_replacement = lambda c, h, w: ("replacement", c, h, w)
        log = []
        with patched(RE, math=ApproxMath(rng, real_math), range=CappedRange(1), round=sym_round):
            x = Img(W, H, log)
            out = t.forward(x, {})
    except (AssumptionFailed, ScriptExhausted):
        return True
    except Exception as e:
        return fail("exception " + type(e).__name__)
    if out is not x:
        return fail("erasing does not return the image")
    for e in log:
        if e[0] != "setitem":
            continue
        key = e[2]
        if not (isinstance(key, tuple) and len(key) == 3 and key[0] == slice(None, None, None)):
            return fail("unexpected assignment form")
        rs, cs = key[1], key[2]
        if not (0 <= rs.start <= rs.stop <= H and 0 <= cs.start <= cs.stop <= W):
            return fail("erased rectangle outside the image")
    return True


def body_semseg_crop(cfg, W, H, th, tw, d0, d1):
    try:
        t = SRC.KDSemsegRandomCrop(size=(th, tw))
        t.set_rng(ScriptRng(ints=[d0, d1]))
        log = []
        with patched(SRC, get_image_size=k_size, crop=k_crop):
            x, s = t((Img(W, H, log, "img"), Img(W, H, log, "seg")), {})
    except (AssumptionFailed, ScriptExhausted):
        return True
    except Exception as e:
        return fail("exception " + type(e).__name__)
    ci = [e for e in log if e[0] == "crop" and e[1] == "img"]
    cs = [e for e in log if e[0] == "crop" and e[1] == "seg"]
    if len(ci) != 1 or len(cs) != 1 or ci[0][2] != cs[0][2]:
        return fail("image and mask are not cropped with identical geometry")
    top, left, h, w = ci[0][2]
    if not in_bounds(top, left, h, w, W, H):
        return fail("crop outside the image")
    if (h, w) != (min(H, th), min(W, tw)):
        return fail("crop size is not min(image, requested)")
    return True


def body_semseg_pad(cfg, W, H, th, tw):
    try:
        t = SPAD.KDSemsegPad(size=(th, tw))
        log = []
        with patched(SPAD, get_image_size=k_size, pad=k_pad):
            x, s = t((Img(W, H, log, "img"), Img(W, H, log, "seg")), {})
    except Exception as e:
        return fail("exception " + type(e).__name__)
    pi = [e for e in log if e[0] == "pad" and e[1] == "img"]
    ps = [e for e in log if e[0] == "pad" and e[1] == "seg"]
    if len(pi) != 1 or len(ps) != 1 or pi[0][2] != ps[0][2]:
        return fail("image and mask are not padded with identical geometry")
    l, tp, r, b = pi[0][2]
    if min(l, tp, r, b) < 0:
        return fail("negative padding")
    if (x.h, x.w) != (max(H, th), max(W, tw)) or (s.h, s.w) != (x.h, x.w):
        return fail("padded size is not max(image, requested)")
    if not (0 <= r - l <= 1 and 0 <= b - tp <= 1):
        return fail("padding not centred")
    if pi[0][3] != 0 or ps[0][3] != -1:
        return fail("fill values")
    return True


def body_semseg_resize(cfg, W, H, bh, bw, f0):
    """cfg = (ratio_min, ratio_max)"""
    rmin, rmax = cfg
    try:
        t = SRR.KDSemsegRandomResize(base_size=(bh, bw), ratio=(rmin, rmax))
        t.set_rng(ScriptRng(floats=[f0]))
        log = []
        with patched(SRR, resize=k_resize, round=sym_round):
            x, s = t((Img(W, H, log, "img"), Img(W, H, log, "seg")), {})
    except (AssumptionFailed, ScriptExhausted):
        return True
    except Exception as e:
        return fail("exception " + type(e).__name__)
    ri = [e for e in log if e[0] == "resize" and e[1] == "img"]
    rs = [e for e in log if e[0] == "resize" and e[1] == "seg"]
    if len(ri) != 1 or len(rs) != 1 or ri[0][2] != rs[0][2]:
        return fail("image and mask are not resized to the same size")
    return True


def body_semseg_flip(cfg, W, H, f0, p):
    try:
        t = SHF.KDSemsegRandomHorizontalFlip(p=0.5)
        t.p = p
        t.set_rng(ScriptRng(floats=[f0]))
        log = []
        with patched(SHF, hflip=k_hflip):
            t((Img(W, H, log, "img"), Img(W, H, log, "seg")), {})
    except (AssumptionFailed, ScriptExhausted):
        return True
    except Exception as e:
        return fail("exception " + type(e).__name__)
    fi = sum(1 for e in log if e == ("hflip", "img"))
    fs = sum(1 for e in log if e == ("hflip", "seg"))
    if fi != fs or fi > 1:
        return fail("image and mask are not flipped together")
    if (fi == 1) != (f0 < p):
        return fail("flip decision does not follow the draw")
    return True


def conditions(tier, rng):
    H = "harness.c14"
    q = tier == "quick"
    to = 600 if q else 1800
    conds = []
    conds.append(Cond(name="random-crop[fits]", harness=H, body="body_random_crop", cfg=None,
                      params=[("W", "int"), ("H", "int"), ("th", "int"), ("tw", "int"), ("pad_if_needed", "bool"), ("d0", "int"), ("d1", "int")],
                      pre=["W >= 1", "H >= 1", "th >= 1", "tw >= 1", "pad_if_needed or (H + 1 >= th and W + 1 >= tw)"], timeout=to, group="random-crop", cost=5,
                      bounds="image and target sizes unbounded (domain in which the error message is not formatted: the f-string would realise the sizes), both draws symbolic"))
    conds.append(Cond(name="simple-random-crop", harness=H, body="body_simple_crop", cfg=None,
                      params=[("W", "int"), ("H", "int"), ("th", "int"), ("tw", "int"), ("p", "int"), ("d0", "int"), ("d1", "int")],
                      pre=["W >= 1", "H >= 1", "th >= 1", "tw >= 1", "p >= 0"], timeout=to, group="random-crop", cost=5,
                      bounds="image size, target size and padding unbounded, both draws symbolic; torchvision Resize replaced by the size-only stand-in"))
    for cfg in (((0.5, 1.0), (1.0, 1.0), (5, 5)), ((0.2, 1.0), (0.5, 2.0), (4, 6))):
        conds.append(Cond(name=f"resized-crop[scale={cfg[0]},ratio=({cfg[1][0]:.2f},{cfg[1][1]:.2f})]", harness=H, body="body_resized_crop", cfg=cfg,
                          params=[("W", "int"), ("H", "int")] + [(f"i{k}", "int") for k in range(2)] + [(f"f{k}", "float") for k in range(5)],
                          pre=["W >= 1", "H >= 1"], timeout=to, floats=True, group="random-resized-crop", cost=20,
                          bounds="image size unbounded, all draws symbolic, exp/sqrt arbitrary positive/non-negative reals, retry loop cut to 1 try (then the fallback)"))
    for cfg in ((1, 1),):
        conds.append(Cond(name=f"erasing[count={cfg[0]}..{cfg[1]}]", harness=H, body="body_erasing", cfg=cfg,
                          params=[("W", "int"), ("H", "int")] + [(f"i{k}", "int") for k in range(2)] + [(f"f{k}", "float") for k in range(5)],
                          pre=["W >= 1", "H >= 1"], timeout=to, floats=True, group="random-erasing", cost=20,
                          bounds="image size unbounded, all draws symbolic, exp/sqrt over-approximated, retry loop cut to 1 try (then the fallback)"))
    smax = 6 if q else 9
    conds.append(Cond(name="semseg-random-crop", harness=H, body="body_semseg_crop", cfg=None,
                      params=[("W", "int"), ("H", "int"), ("th", "int"), ("tw", "int"), ("d0", "int"), ("d1", "int")],
                      pre=[f"1 <= W <= {smax}", f"1 <= H <= {smax}", f"1 <= th <= {smax}", f"1 <= tw <= {smax}"], timeout=to, group="semseg-pairs", cost=30,
                      bounds=f"sizes <= {smax} (the 1-element draw is realised), draws symbolic"))
    conds.append(Cond(name="semseg-pad", harness=H, body="body_semseg_pad", cfg=None,
                      params=[("W", "int"), ("H", "int"), ("th", "int"), ("tw", "int")], pre=["W >= 1", "H >= 1", "th >= 1", "tw >= 1"],
                      timeout=to, group="semseg-pairs", cost=3, bounds="sizes unbounded"))
    conds.append(Cond(name="semseg-hflip", harness=H, body="body_semseg_flip", cfg=None,
                      params=[("W", "int"), ("H", "int"), ("f0", "float"), ("p", "float")], pre=["W >= 1", "H >= 1", "0.0 <= p <= 1.0"],
                      timeout=to, floats=True, group="semseg-pairs", cost=2, bounds="sizes unbounded, draw and probability symbolic"))
    return conds
