"""C10 - batch mixup/cutmix mixes image and label with the same partner and weight."""
import numpy as np
import torch

from vf.common import fail, realize_all
from vf.engine import Cond
from kappadata.collators.kd_mix_collator import KDMixCollator

MANIFEST_LEVEL = "The real KDMixCollator.collate / get_random_bbox / shuffle run on real (tiny) torch tensors whose pixel values and one-hot labels encode the sample id; every random draw (apply, use_cutmix, beta weights on a grid, box centres, permutation) is a symbolic harness argument that CrossHair realises where it enters numpy/torch, i.e. the solver enumerates the draw space of each enumerated mode combination exhaustively within the bounds, and partner, weight, box shape, retained pixel fraction, label rows and pass-through items are decoded from the output. The unit test covers pure mixup with lamb_mode=sample, roll, one seed."
MANIFEST_NOTE = "Trusted: CrossHair/z3 for the enumeration of the draws, torch kernels behind the realisation boundary (the tensor arithmetic itself is concrete: this check is value enumeration through the solver, not symbolic pixel reasoning); float32 rounding is tolerated with 1e-5. Outside: images larger than 2x2..3x3, the NotImplemented p<1 configurations."
MANIFEST_TECHNIQUE = "symbolic execution of the real collator with symbolic random draws realised at the tensor boundary (CrossHair on z3, exhaustive over the bounded draw space per mode combination)"
PROPERTY = "C10"
ENCODED = [
    "kappadata.collators.kd_mix_collator:KDMixCollator.collate",
    "kappadata.collators.kd_mix_collator:KDMixCollator.get_random_bbox",
    "kappadata.collators.kd_mix_collator:KDMixCollator.shuffle",
]
STUBS = ["GridRng: numpy-Generator stand-in whose draws are harness arguments: random() and beta() on the grid k/4, integers() and permutation() symbolic, all realised when handed to numpy/torch"]
ASSUMPTIONS = ["draws lie in the documented range of the numpy call (grid k/4 for random/beta)", "float32 comparisons with tolerance 1e-5"]
OUTSIDE = ["images larger than 3x3, batches larger than 4", "continuous beta values off the grid", "configurations with mixup_p + cutmix_p < 1 (NotImplementedError by design)"]
BOUNDS = {"quick": "apply_mode x lamb_mode x shuffle_mode x {mixup, cutmix, both} x dataset modes {x class, index x class, class x}; batch 1..3 (2 and 4 for flip), image 2x2, one-hot classes or binary scalar labels; draws on the grid k/4, box centres and permutation symbolic",
          "thorough": "same with 3x3 images and batch up to 4"}


class GridRng:
    def __init__(self, floats, ints, perm_code):
        self.f = list(floats)
        self.i = list(ints)
        self.perm_code = perm_code

    def _f(self):
        return realize_all(self.f.pop(0)) / 4.0 if self.f else 0.5

    def _i(self, high):
        v = realize_all(self.i.pop(0)) if self.i else 0
        return v % high

    def random(self, size=None):
        if size is None:
            return min(self._f(), 0.999)
        return np.array([min(self._f(), 0.999) for _ in range(size)])

    def beta(self, a, b, size=None):
        if size is None:
            return self._f()
        return np.array([self._f() for _ in range(size)])

    def integers(self, high, size=None):
        n = size[0] if isinstance(size, tuple) else size
        return np.array([self._i(high) for _ in range(n)], dtype=np.int64)

    def permutation(self, n):
        # a second permutation draw in the same collate call is a *different* permutation (a fresh
        # draw of a real generator almost surely is), so re-drawing instead of re-using shows
        self.perm_calls = getattr(self, "perm_calls", 0) + 1
        code = realize_all(self.perm_code) + (self.perm_calls - 1)
        items = list(range(n))
        out = []
        while items:
            k = len(items)
            out.append(items.pop(code % k))
            code //= k
        return np.array(out)


def partner(mode, B, i, perm):
    if B == 1:
        return i
    if mode == "roll":
        return (i - 1) % B
    if mode == "flip":
        return B - 1 - i
    return int(perm[i])


def body_mix(cfg, f0, f1, f2, f3, f4, f5, f6, f7, i0, i1, i2, i3, i4, i5, i6, i7, pc):
    """cfg = (apply_mode, lamb_mode, shuffle_mode, kind, dataset_mode, B, HW, binary)"""
    apply_mode, lamb_mode, shuffle_mode, kind, dmode, B, HW, binary = cfg
    kw = {}
    if kind == "mixup":
        kw = dict(mixup_alpha=0.8, mixup_p=1.0)
    elif kind == "cutmix":
        kw = dict(cutmix_alpha=1.0, cutmix_p=1.0)
    else:
        kw = dict(mixup_alpha=0.8, cutmix_alpha=1.0, mixup_p=0.5, cutmix_p=0.5)
    try:
        col = KDMixCollator(apply_mode=apply_mode, lamb_mode=lamb_mode, shuffle_mode=shuffle_mode, dataset_mode=dmode, return_ctx=True, **kw)
        rng = GridRng([f0, f1, f2, f3, f4, f5, f6, f7], [i0, i1, i2, i3, i4, i5, i6, i7], pc)
        col.set_rng(rng)
        x0 = torch.zeros(B, 1, HW, HW)
        for b in range(B):
            for r in range(HW):
                for c in range(HW):
                    x0[b, 0, r, c] = 100.0 * (b + 1) + 10 * r + c
        if binary:
            y0 = torch.tensor([float(b % 2) for b in range(B)])
        else:
            y0 = torch.eye(B)
        idx0 = torch.arange(B) + 50
        items = {"x": x0.clone(), "class": y0.clone(), "index": idx0.clone()}
        names = dmode.split(" ")
        batch = tuple(items[n] for n in names)
        ctx = {}
        # remember the permutation the collator will be given (same decoding as GridRng.permutation)
        perm = GridRng([], [], pc).permutation(B) if shuffle_mode == "random" else None
        out = col.collate(batch, dmode, ctx)
    except Exception as e:
        return fail("exception " + type(e).__name__)
    res = {n: out[k] for k, n in enumerate(names)}
    xo, yo = res["x"], res["class"]
    if "index" in res and not torch.equal(res["index"], idx0):
        return fail("item other than image and label was modified")
    lam = ctx["lambda"].float().reshape(-1)
    uc = ctx["use_cutmix"]
    tol = 1e-5
    for i in range(B):
        p = partner(shuffle_mode, B, i, perm)
        w = float(lam[i] if len(lam) > 1 else lam[0])
        cut = bool(uc[i]) if hasattr(uc, "__len__") and not isinstance(uc, bool) and getattr(uc, "ndim", 1) > 0 else bool(uc)
        if not (-tol <= w <= 1 + tol):
            return fail("reported weight outside [0,1]")
        want_y = w * y0[i] + (1 - w) * y0[p]
        if not torch.allclose(yo[i], want_y, atol=tol):
            return fail("label is not mixed with the configured partner and the reported weight")
        if not binary and abs(float(yo[i].sum()) - 1.0) > tol:
            return fail("one-hot label row does not sum to one")
        if not cut:
            if not torch.allclose(xo[i], w * x0[i] + (1 - w) * x0[p], atol=1e-3):
                return fail("mixup image is not the same convex combination as the label")
        else:
            own = (xo[i, 0] == x0[i, 0])
            oth = (xo[i, 0] == x0[p, 0])
            if p != i and not bool((own | oth).all()):
                return fail("cutmix image contains pixels of neither sample i nor its partner")
            if p != i:
                pasted = ~own
                n_p = int(pasted.sum())
                if n_p > 0:
                    rows = pasted.any(dim=1).nonzero().reshape(-1)
                    cols = pasted.any(dim=0).nonzero().reshape(-1)
                    h = int(rows.max() - rows.min() + 1)
                    wd = int(cols.max() - cols.min() + 1)
                    if h * wd != n_p:
                        return fail("pasted region is not one rectangle")
                if abs((1 - n_p / (HW * HW)) - w) > tol:
                    return fail("retained pixel fraction differs from the reported weight")
    return True


def conditions(tier, rng):
    H = "harness.c10"
    q = tier == "quick"
    to = 900 if q else 2400
    HW = 2 if q else 3
    conds = []
    params = [(f"f{k}", "int") for k in range(8)] + [(f"i{k}", "int") for k in range(8)] + [("pc", "int")]
    for apply_mode in ("batch", "sample"):
        for lamb_mode in ("batch", "sample"):
            for shuffle_mode in ("roll", "flip", "random"):
                for kind in ("mixup", "cutmix", "both"):
                    for dmode in ("x class", "index x class", "class x"):
                        if q and dmode != "x class" and (apply_mode, kind) != ("batch", "both"):
                            continue
                        for B in ((2, 4) if shuffle_mode == "flip" else (1, 2, 3)):
                            if q and B > 2 and lamb_mode == "sample" and kind != "mixup":
                                continue
                            binary = (B == 2 and dmode == "class x")
                            # number of float / int draws actually consumed (the rest is pinned to 0)
                            nf = (1 if apply_mode == "batch" else B) + (2 if lamb_mode == "batch" else B * (1 + (kind != "cutmix") + (kind != "mixup")))
                            ni = 0 if kind == "mixup" else (2 if lamb_mode == "batch" else 2 * B)
                            nf = min(nf, 8)
                            ni = min(ni, 8)
                            # the realised draw space must stay small (each leaf is one concrete run of the
                            # collator; CrossHair needs ~10 paths per leaf): shrink the grid, then the number of
                            # symbolic box centres, until it fits
                            cap = 100 if q else 300
                            nperm = {1: 1, 2: 2, 3: 6, 4: 24}[B]
                            grid = (0, 1, 2, 3, 4)
                            ni_sym = ni
                            def _cost():
                                return (len(grid) ** nf) * (HW ** ni_sym) * (nperm if shuffle_mode == "random" else 1)
                            if _cost() > cap:
                                grid = (0, 2, 4)
                            if _cost() > cap:
                                grid = (1, 3)
                            while _cost() > cap and ni_sym > 0:
                                ni_sym -= 1
                            if _cost() > cap:
                                continue
                            pre = []
                            for k in range(8):
                                pre.append(f"f{k} in {grid}" if k < nf else f"f{k} == 2")
                                pre.append(f"0 <= i{k} < {HW}" if k < ni_sym else f"i{k} == {k % HW}")
                            pre.append(f"0 <= pc < {nperm}" if shuffle_mode == "random" else "pc == 0")
                            cost = _cost()
                            conds.append(Cond(
                                name=f"mix[{apply_mode};{lamb_mode};{shuffle_mode};{kind};{dmode};B={B}]", harness=H, body="body_mix",
                                cfg=(apply_mode, lamb_mode, shuffle_mode, kind, dmode, B, HW, binary), params=params, pre=pre, timeout=to,
                                group=f"mix-{lamb_mode}-{kind}", cost=cost,
                                bounds=f"draws on the grid k/4 (k in {grid}), box centres in [0,{HW}), permutation code symbolic; {HW}x{HW} images"))
    return conds
