#!/bin/bash
# usage: tools/run_mutation.sh <PID> <dir with patch.diff> [quick|thorough]
# applies the patch to /repo, runs the property's check, reverts; prints exit code and wall time
PID=$1; D=$2; TIER=${3:-quick}
cd /repo || exit 9
git diff --quiet || { echo "repo dirty"; exit 9; }
git apply "$D/patch.diff" || { echo "patch does not apply"; exit 9; }
cd /verif
S=$(date +%s)
./check $PID $TIER > /tmp/mut_$PID_$(basename $D).log 2>&1
RC=$?
E2=$(date +%s)
git -C /repo checkout -- .
# the run above rewrote evidence/<PID>.json from the mutated tree: put the committed (clean-tree) evidence back
git -C /verif checkout -- evidence/$PID.json 2>/dev/null
echo "MUTATION $PID $(basename $(dirname $D))/$(basename $D) tier=$TIER exit=$RC wall=$((E2-S))s  $(grep -c '^VIOLATION' /tmp/mut_$PID_$(basename $D).log) violation lines; first: $(grep -m1 'counterexample' /tmp/mut_$PID_$(basename $D).log | cut -c1-250)"
