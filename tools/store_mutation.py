#!/usr/bin/env python3
"""usage: store_mutation.py <PID> <src mutation dir> <seeded id> <confirm line> <check result line>"""
import json, shutil, sys, os
pid, src, sid, confirm, result = sys.argv[1:6]
dst = f"/verif/seeded/{sid}"
os.makedirs(dst, exist_ok=True)
shutil.copy(f"{src}/patch.diff", dst); shutil.copy(f"{src}/demo.py", dst)
meta = json.load(open(f"{src}/meta.json"))
meta.update({"property": pid, "confirmed_in_scratch_worktree": confirm, "check_result": result,
             "how_to_run": f"git -C /repo apply /verif/seeded/{sid}/patch.diff && (cd /verif && ./check {pid} quick); git -C /repo checkout -- ."})
json.dump(meta, open(f"{dst}/meta.json", "w"), indent=1)
print("stored", dst)
