#!/bin/bash
# usage: tools/confirm_mutation.sh <worktree> <mutation dir> <tests subdir>  -> prints CONFIRMED or reason
WT=$1; D=$2; T=$3
cd $WT || exit 9
git checkout -q -- . 
R0=$(PYTHONPATH=$WT /venv/bin/python $D/demo.py >/dev/null 2>&1; echo $?)
git apply $D/patch.diff || { echo "NOAPPLY"; exit 1; }
R1=$(PYTHONPATH=$WT timeout 600 /venv/bin/python $D/demo.py >/dev/null 2>&1; echo $?)
TP=$(PYTHONPATH=$WT /venv/bin/python -m pytest -q -p no:cacheprovider --timeout=900 --continue-on-collection-errors 2>&1 | grep -E "[0-9]+ passed" | tail -1)
git checkout -q -- .
echo "demo clean=$R0 mutated=$R1 ; full suite with patch: $TP"
