#!/bin/bash
# run every registered quick check once on the current tree; prints exit code and wall time per property
cd /verif
for P in $(python3 -c "import json; print(' '.join(c['property_id'] for c in json.load(open('MANIFEST.json'))['checks']))"); do
  S=$(date +%s); ./check $P ${1:-quick} > /tmp/all_$P.log 2>&1; RC=$?; E=$(date +%s)
  echo "$P exit=$RC wall=$((E-S))s $(grep -c '^KNOWN-FINDING' /tmp/all_$P.log) known-finding lines; $(tail -1 /tmp/all_$P.log | cut -c1-160)"
done
