from crosshair.core import proxy_for_type
from crosshair.tracers import NoTracing
from crosshair.util import IgnoreAttempt

class SymRng:
    """contract-only stand-in for numpy.random.Generator: every draw is a fresh symbolic value"""
    def __init__(self):
        self.n = 0
        self.log = []
    def _fresh(self, typ, tag):
        self.n += 1
        with NoTracing():
            v = proxy_for_type(typ, f"{tag}{self.n}")
        if typ is float and not (v == v and -1e300 < v < 1e300):
            raise IgnoreAttempt("finite")
        return v
    def integers(self, low, high=None, size=None):
        if high is None:
            low, high = 0, low
        if size is not None:
            raise NotImplementedError
        if not low < high:
            raise ValueError("low >= high")
        v = self._fresh(int, "ri")
        if not (low <= v < high):
            raise IgnoreAttempt("assume")
        self.log.append(("integers", v))
        return v
    def uniform(self, lo=0.0, hi=1.0):
        v = self._fresh(float, "ru")
        if not (lo <= v <= hi):
            raise IgnoreAttempt("assume")
        self.log.append(("uniform", v))
        return v
    def random(self):
        v = self._fresh(float, "rr")
        if not (0.0 <= v < 1.0):
            raise IgnoreAttempt("assume")
        return v
