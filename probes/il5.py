from typing import Optional
from il1 import *
from il1 import _Seq

def _run(n, b, drop_last, epochs, updates, samples, m, ene, enu, ens, start_epoch):
    cfg = InterleavedSamplerConfig(sampler=_Seq(m), every_n_epochs=ene, every_n_updates=enu, every_n_samples=ens)
    main = _Seq(n)
    s = InterleavedSampler(main_sampler=main, batch_size=b, drop_last=drop_last, epochs=epochs, updates=updates, samples=samples, configs=[cfg], start_epoch=start_epoch)
    return list(s), main.epochs

def check_resume(n: int, b: int, drop_last: bool, budget_kind: int, budget: int, ene: Optional[int], enu: Optional[int], ens: Optional[int], k: int) -> bool:
    """
    pre: 1 <= n <= 5
    pre: 1 <= b <= n
    pre: 0 <= budget_kind <= 2
    pre: 1 <= budget <= 12
    pre: 1 <= k <= 2
    pre: ene is None or 1 <= ene <= 2
    pre: enu is None or 1 <= enu <= 3
    pre: ens is None or 1 <= ens <= 7
    pre: (ene is not None) + (enu is not None) + (ens is not None) == 1
    post: _
    """
    epochs = budget if budget_kind == 0 else None
    updates = budget if budget_kind == 1 else None
    samples = budget if budget_kind == 2 else None
    if epochs is not None and epochs > 3:
        return True
    full, full_ep = _run(n, b, drop_last, epochs, updates, samples, 1, ene, enu, ens, None)
    # locate checkpoint: position in full stream right after k epochs finished (incl. interleaved passes)
    if len(full_ep) <= k:
        return True  # checkpoint not strictly before the budget
    # find position: the k-th time main index restarts
    spe = n // b * b if drop_last else n
    cnt = 0
    pos = None
    for i, (f, idx) in enumerate(full):
        if idx < n:
            cnt += 1
            if cnt == k * spe + 1:
                pos = i
                break
    if pos is None:
        return True
    try:
        res, res_ep = _run(n, b, drop_last, epochs, updates, samples, 1, ene, enu, ens, k)
    except NotImplementedError:
        return True
    return res == full[pos:] and res_ep == full_ep[k:]
