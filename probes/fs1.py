import kappadata.copying.folder as F
import kappadata.copying.copying_utils as CU

class Crash(BaseException):
    pass

class FS:
    def __init__(self, crash_at):
        self.files = {}      # path -> content token
        self.dirs = set()
        self.ops = 0
        self.crash_at = crash_at
        self.trace = []
    def step(self, label):
        self.ops += 1
        if self.ops == self.crash_at:
            raise Crash(label)
        self.trace.append(label)

FSX = None

class P:
    def __init__(self, s):
        self.s = s.s if isinstance(s, P) else s
    def expanduser(self): return self
    def __truediv__(self, o): return P(self.s + "/" + (o.s if isinstance(o, P) else o))
    def exists(self): return self.s in FSX.files or self.s in FSX.dirs
    def is_dir(self): return self.s in FSX.dirs
    def with_suffix(self, suf): return P(self.s + suf)
    @property
    def name(self): return self.s.rsplit("/", 1)[-1]
    def mkdir(self, parents=False, exist_ok=False):
        FSX.step("mkdir " + self.s)
        FSX.dirs.add(self.s)
    def __fspath__(self): return self.s

class _File:
    def __init__(self, p): self.p = p
    def __enter__(self):
        FSX.step("create " + self.p)
        FSX.files[self.p] = "partial"
        return self
    def write(self, txt):
        FSX.step("write " + self.p)
        FSX.files[self.p] = "marker"
    def __exit__(self, *a): return False

def fake_open(p, mode):
    return _File(p.s)

class _Shutil:
    @staticmethod
    def rmtree(p):
        pre = p.s + "/"
        for f in sorted(k for k in FSX.files if k.startswith(pre)):
            FSX.step("unlink " + f)
            del FSX.files[f]
        FSX.step("rmdir " + p.s)
        FSX.dirs.discard(p.s)
    @staticmethod
    def copytree(src, dst, dirs_exist_ok=False):
        pre = src.s + "/"
        for f in sorted(k for k in FSX.files if k.startswith(pre)):
            t = dst.s + "/" + f[len(pre):]
            FSX.step("copy-begin " + t)
            FSX.files[t] = "partial"
            FSX.step("copy-end " + t)
            FSX.files[t] = FSX.files[f]

class _OS:
    @staticmethod
    def listdir(p):
        pre = (p.s if isinstance(p, P) else p) + "/"
        return sorted({k[len(pre):].split("/")[0] for k in FSX.files if k.startswith(pre)})

F.Path = P; F.open = fake_open; F.shutil = _Shutil; F.os = _OS; CU.os = _OS

def one_step(dst_exists: bool, start: bool, end: bool, f1: int, f2: int, user: bool, crash_at: int) -> bool:
    """
    pre: 0 <= f1 <= 2 and 0 <= f2 <= 2
    pre: 0 <= crash_at <= 12
    post: _
    """
    global FSX
    # representation invariant of the marker protocol
    if not dst_exists and (start or end or f1 or f2 or user):
        return True
    if user and (start or end):
        return True
    if not user and dst_exists and not start:
        return True   # Inv: an automatic dst always carries the start marker
    if end and not (start and f1 == 2 and f2 == 2):
        return True
    fs = FS(crash_at)
    FSX = fs
    fs.dirs.add("g"); fs.files["g/a"] = "A"; fs.files["g/b"] = "B"
    if dst_exists:
        fs.dirs.add("l")
        if start: fs.files["l/autocopy_start.txt"] = "marker"
        if end: fs.files["l/autocopy_end.txt"] = "marker"
        if f1: fs.files["l/a"] = "partial" if f1 == 1 else ("U" if user else "A")
        if f2: fs.files["l/b"] = "partial" if f2 == 1 else ("U" if user else "B")
    before = dict(fs.files)
    try:
        res = F.copy_folder_from_global_to_local(P("g"), P("l"))
    except Crash:
        # invariant must be re-established at every crash point
        d = "l" in fs.dirs
        s = "l/autocopy_start.txt" in fs.files
        e = "l/autocopy_end.txt" in fs.files
        if user:
            return fs.files == before
        if d and not s:
            return False
        if e and not (fs.files.get("l/a") == "A" and fs.files.get("l/b") == "B"):
            return False
        return True
    if user:
        return fs.files == before and not res.was_copied
    return fs.files.get("l/a") == "A" and fs.files.get("l/b") == "B"
