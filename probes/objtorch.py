"""spike: torch-named adapter over numpy object arrays holding CrossHair symbolic reals"""
import numpy as np

float32 = "float32"; long = "long"; float64 = "float64"

class T:
    def __init__(self, a):
        self.a = np.asarray(a, dtype=object) if not isinstance(a, np.ndarray) else a
    # structure
    @property
    def ndim(self): return self.a.ndim
    @property
    def shape(self): return self.a.shape
    def size(self, d=None): return self.a.shape if d is None else self.a.shape[d]
    def __len__(self): return len(self.a)
    def __iter__(self):
        for i in range(len(self.a)):
            yield self[i]
    def _w(self, r):
        return T(r) if isinstance(r, np.ndarray) else r
    def __getitem__(self, k):
        k = _unw(k)
        return self._w(self.a[k])
    def __setitem__(self, k, v):
        self.a[_unw(k)] = _unw(v)
    def clone(self): return T(self.a.copy())
    def view(self, *s): return T(self.a.reshape(*s))
    def unsqueeze(self, d): return T(np.expand_dims(self.a, d))
    def squeeze(self, d=None): return T(np.squeeze(self.a, axis=d))
    def roll(self, shifts, dims): return T(np.roll(self.a, shifts, axis=dims))
    def flip(self, d): return T(np.flip(self.a, axis=d))
    def type(self, t): return self
    def float(self): return self
    # arithmetic
    def __mul__(self, o): return T(self.a * _unw(o))
    __rmul__ = __mul__
    def __add__(self, o): return T(self.a + _unw(o))
    __radd__ = __add__
    def __sub__(self, o): return T(self.a - _unw(o))
    def __rsub__(self, o): return T(_unw(o) - self.a)
    def mul_(self, o):
        self.a[...] = self.a * _unw(o); return self
    def add_(self, o):
        self.a[...] = self.a + _unw(o); return self
    def min(self): return min(self.a.flat)
    def max(self): return max(self.a.flat)
    def tolist(self): return self.a.tolist()

def _unw(x):
    if isinstance(x, T): return x.a
    if isinstance(x, tuple): return tuple(_unw(e) for e in x)
    return x

def tensor(v): return T(np.array(v, dtype=object))
def full(size, fill_value):
    a = np.empty(size, dtype=object); a[...] = fill_value; return T(a)
def from_numpy(a): return T(a)
def arange(n): return T(np.arange(n).astype(object))
