from st1 import *

def check4(n1: int, n2: int, a0: int, a1: int, b0: int, b1: int, b2: int, k: int) -> bool:
    """
    pre: 1 <= n1 and 1 <= n2
    pre: 0 <= a0 < n1 and 0 <= a1 < n1
    pre: 0 <= b0 < 2 + n2 and 0 <= b1 < 2 + n2 and 0 <= b2 < 2 + n2
    pre: -3 <= k < 3
    post: _
    """
    idx1 = [a0, a1]; idx2 = [b0, b1, b2]
    a = Base(n1, "a"); b = Base(n2, "b")
    s1 = KDSubset(a, idx1)
    c = KDConcatDataset([s1, b])
    s2 = KDSubset(KDWrapper(c), idx2)
    kk = k if k >= 0 else len(idx2) + k
    j = idx2[kk]
    exp = ("a", idx1[j]) if j < len(idx1) else ("b", j - len(idx1))
    return s2.getitem_x(k) == exp and len(s2) == len(idx2) and s2.root_dataset is a
