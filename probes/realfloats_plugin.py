from crosshair.libimpl import builtinslib as _b
_b._PYTYPE_TO_WRAPPER_TYPE[float] = ((_b.RealBasedSymbolicFloat, 1.0),)
