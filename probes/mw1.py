from typing import List
from kappadata.datasets.kd_dataset import KDDataset
from kappadata.datasets.kd_wrapper import KDWrapper
from kappadata.wrappers.mode_wrapper import ModeWrapper

class Base(KDDataset):
    def __init__(self, n):
        super().__init__()
        self.n = n
    def __len__(self):
        return self.n
    def getitem_x(self, idx, ctx=None):
        if ctx is not None:
            ctx["kx"] = ("kx", idx)
        return ("x", idx)
    def getitem_class(self, idx, ctx=None):
        if ctx is not None:
            ctx["kc"] = ("kc", idx)
        return ("class", idx)
    def getitem_y(self, idx, ctx=None):
        return ("y", idx)

class Fused(KDWrapper):
    @property
    def fused_operations(self):
        return super().fused_operations + [["x", "class"]]
    def getitem_x(self, idx, ctx=None):
        return self.getitem_xclass(idx, ctx)[0]
    def getitem_class(self, idx, ctx=None):
        return self.getitem_xclass(idx, ctx)[1]
    def getitem_xclass(self, idx, ctx=None):
        return ("fx", idx), ("fclass", idx)
    def getitem_y(self, idx, ctx=None):
        return self.dataset.getitem_y(idx, ctx)

ALPHA = ["x", "class", "y", "index", "ctx.kx", "ctx.kc"]

def expected(item, i, fused):
    if item == "index":
        return i
    if item.startswith("ctx."):
        return (item[4:], i)
    if fused and item in ("x", "class"):
        return ("f" + item, i)
    return (item, i)

def check(sel: List[int], n: int, i: int, fused: bool, return_ctx: bool) -> bool:
    """
    pre: 1 <= len(sel) <= 4
    pre: all(0 <= s < 6 for s in sel)
    pre: 1 <= n <= 4
    pre: -n <= i < n
    post: _
    """
    items = [ALPHA[s] for s in sel]
    # domain: ctx.<key> after the item recording it; fused stacks record nothing
    for p, it in enumerate(items):
        if it == "ctx.kx" and (fused or "x" not in items[:p]):
            return True
        if it == "ctx.kc" and (fused or "class" not in items[:p]):
            return True
    mode = " ".join(items)
    ds = Base(n)
    if fused:
        ds = Fused(ds)
    mw = ModeWrapper(ds, mode=mode, return_ctx=return_ctx)
    got = mw[i]
    ii = i if i >= 0 else n + i
    exp = [expected(it, ii, fused) for it in items]
    exp = exp[0] if len(exp) == 1 else tuple(exp)
    if return_ctx:
        if not (isinstance(got, tuple) and len(got) == 2):
            return False
        got, ctx = got
        if not isinstance(ctx, dict):
            return False
        for k, v in ctx.items():
            if v != (k, ii):
                return False
    return got == exp and len(mw) == n
