import itertools
ALPHA = ["x", "class", "y", "index", "ctx.kx", "ctx.kc"]
hdr = open("mw1.py").read().split("def check(")[0]
out = [hdr]
out.append('''
def _chk(items, n, i, fused, return_ctx):
    mode = " ".join(items)
    ds = Base(n)
    if fused:
        ds = Fused(ds)
    mw = ModeWrapper(ds, mode=mode, return_ctx=return_ctx)
    got = mw[i]
    ii = i if i >= 0 else n + i
    exp = [expected(it, ii, fused) for it in items]
    exp = exp[0] if len(exp) == 1 else tuple(exp)
    if return_ctx:
        if not (isinstance(got, tuple) and len(got) == 2):
            return False
        got, ctx = got
        if not isinstance(ctx, dict):
            return False
        for k, v in ctx.items():
            if v != (k, ii):
                return False
    return got == exp and len(mw) == n
''')
k = 0
for L in (1, 2, 3):
    for items in itertools.product(ALPHA, repeat=L):
        for fused in (False, True):
            ok = True
            for p, it in enumerate(items):
                if it == "ctx.kx" and (fused or "x" not in items[:p]): ok = False
                if it == "ctx.kc" and (fused or "class" not in items[:p]): ok = False
            if not ok: continue
            out.append(f'''
def check_{k}(n: int, i: int, return_ctx: bool) -> bool:
    """
    pre: 1 <= n
    pre: -n <= i < n
    post: _
    """
    return _chk({list(items)!r}, n, i, {fused}, return_ctx)
''')
            k += 1
open("mw2.py", "w").write("\n".join(out))
print(k)
