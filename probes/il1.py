from typing import List, Tuple
from kappadata.samplers.interleaved_sampler import InterleavedSampler, InterleavedSamplerConfig


class _DS:
    def __init__(self, n):
        self.n = n

    def __len__(self):
        return self.n


class _Seq:
    def __init__(self, n):
        self.data_source = _DS(n)
        self.n = n
        self.epochs = []

    def __len__(self):
        return self.n

    def __iter__(self):
        return iter(range(self.n))

    def set_epoch(self, e):
        self.epochs.append(e)


def ref_main_stream(n, b, drop_last, epochs):
    out = []
    for e in range(epochs):
        spe = n // b * b if drop_last else n
        for i in range(spe):
            full = ((i + 1) % b == 0) or (i + 1 == spe)
            out.append((full, i))
    return out


def check_epochs(n: int, b: int, drop_last: bool, epochs: int) -> bool:
    """
    pre: 1 <= n <= 6
    pre: 1 <= b <= n
    pre: 1 <= epochs <= 3
    post: _
    """
    s = InterleavedSampler(main_sampler=_Seq(n), batch_size=b, drop_last=drop_last, epochs=epochs)
    got = list(s)
    return got == ref_main_stream(n, b, drop_last, epochs)
