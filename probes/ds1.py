import numpy as np
import kappadata.samplers.distributed_sampler as D
import objtorch

class _DS:
    def __init__(self, n): self.n = n
    def __len__(self): return self.n

PERM = None
class _Gen:
    def manual_seed(self, s):
        self.s = s; return self
class _Torch:
    Generator = _Gen
    @staticmethod
    def randperm(n, generator=None):
        _Torch.keys.append(generator.s)
        return _RT(list(PERM[:n]))
class _RT:
    def __init__(self, l): self.l = l
    def repeat_interleave(self, repeats):
        return _RT([v for v in self.l for _ in range(repeats)])
    def __getitem__(self, k): return _RT(self.l[k])
    def tolist(self): return list(self.l)

def dist_rep(n: int, W: int, rep: int, drop_last: bool, seed: int, epoch: int, a: int, b: int, c: int, d: int) -> bool:
    """
    pre: 1 <= n <= 4 and 1 <= W <= 3 and 2 <= rep <= 3
    pre: 0 <= seed and 0 <= epoch
    pre: sorted([a, b, c, d][:n]) == list(range(n))
    post: _
    """
    global PERM
    PERM = [a, b, c, d]
    D.torch = _Torch
    _Torch.keys = []
    streams = []
    for r in range(W):
        s = D.DistributedSampler(_DS(n), num_replicas=W, rank=r, shuffle=True, seed=seed, drop_last=drop_last, num_repeats=rep)
        s.set_epoch(epoch)
        streams.append(list(s))
        if len(streams[-1]) != len(s):
            return False
    G = [v for v in PERM[:n] for _ in range(rep)][:n]
    total = len(streams[0]) * W
    # global draw padded (wrap-around) or cut
    Gp = (G * (total // len(G) + 1))[:total] if total > len(G) else G[:total]
    inter = [streams[i % W][i // W] for i in range(total)]
    return inter == Gp and all(k == seed + epoch for k in _Torch.keys)
