from typing import List
from kappadata.datasets.kd_dataset import KDDataset
from kappadata.datasets.kd_wrapper import KDWrapper
from kappadata.datasets.kd_subset import KDSubset
from kappadata.datasets.kd_concat_dataset import KDConcatDataset
KDSubset.__getitems__ = lambda self, idxs: None  # probe only

class Base(KDDataset):
    def __init__(self, n, tag):
        super().__init__()
        self.n = n
        self.tag = tag
    def __len__(self):
        return self.n
    def getitem_x(self, idx, ctx=None):
        assert 0 <= idx < self.n
        return (self.tag, idx)
    def getall_x(self):
        return [(self.tag, i) for i in range(self.n)]

def check(n1: int, n2: int, idx1: List[int], idx2: List[int], k: int) -> bool:
    """
    pre: 1 <= n1 <= 3 and 1 <= n2 <= 3
    pre: len(idx1) <= 3 and all(0 <= a < n1 for a in idx1)
    pre: 1 <= len(idx2) <= 3 and all(0 <= a < len(idx1) + n2 for a in idx2)
    pre: -len(idx2) <= k < len(idx2)
    post: _
    """
    a = Base(n1, "a"); b = Base(n2, "b")
    s1 = KDSubset(a, idx1)
    c = KDConcatDataset([s1, b])
    s2 = KDSubset(KDWrapper(c), idx2)
    # reference map
    kk = k if k >= 0 else len(idx2) + k
    j = idx2[kk]
    exp = ("a", idx1[j]) if j < len(idx1) else ("b", j - len(idx1))
    allx = s2.getall_x()
    return s2.getitem_x(k) == exp and len(s2) == len(idx2) and allx[kk] == exp and len(allx) == len(idx2) and s2.root_dataset is a
