from typing import List
from kappadata.caching.shared_dict_dataset import SharedDictDataset

class Base:
    def __init__(self, n):
        self.n = n; self.loads = {}
    def __len__(self): return self.n
    def __getitem__(self, i):
        self.loads[i] = self.loads.get(i, 0) + 1
        return ("s", i)

class IDict(dict):
    """another process may insert a correct entry or clear before each of our operations"""
    def __init__(self, script):
        super().__init__(); self.script = script; self.k = 0
    def _interfere(self):
        if self.k < len(self.script):
            a = self.script[self.k]; self.k += 1
            if a == -1:
                dict.clear(self)
            elif a >= 0:
                dict.__setitem__(self, a, ("s", a))
    def __contains__(self, key):
        self._interfere(); return dict.__contains__(self, key)
    def __getitem__(self, key):
        self._interfere(); return dict.__getitem__(self, key)
    def __setitem__(self, key, v):
        self._interfere(); dict.__setitem__(self, key, v)

def seq(ops: List[int]) -> bool:
    """
    pre: len(ops) <= 5 and all(-1 <= o < 3 for o in ops)
    post: _
    """
    base = Base(3)
    c = SharedDictDataset.__new__(SharedDictDataset)
    c.dataset = base; c.transform = lambda s: ("t", s); c.shared_dict = {}
    since_clear = {}
    for o in ops:
        if o == -1:
            c.dispose(); since_clear = {}
        else:
            before = base.loads.get(o, 0)
            if c[o] != ("t", ("s", o)):
                return False
            loaded = base.loads.get(o, 0) - before
            if loaded != (0 if since_clear.get(o) else 1):
                return False
            since_clear[o] = True
    return True

def shared(i: int, s0: int, s1: int, s2: int) -> bool:
    """
    pre: 0 <= i < 3 and all(-2 <= s < 3 for s in (s0, s1, s2))
    post: _
    """
    base = Base(3)
    c = SharedDictDataset.__new__(SharedDictDataset)
    c.dataset = base; c.transform = None; c.shared_dict = IDict([s0, s1, s2])
    try:
        return c[i] == ("s", i)
    except Exception:
        return False
