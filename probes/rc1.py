import kappadata.transforms.kd_random_resized_crop as M
import kappadata.transforms.kd_random_crop as C
from symrng import SymRng

class Img:
    def __init__(self, w, h): self.w, self.h = w, h
M.get_image_size = lambda img: (img.w, img.h)
C.get_image_size = lambda img: (img.w, img.h)

class _NP:
    """np.exp / np.sqrt over-approximated: any positive / non-negative real"""
    def __init__(self, rng): self.rng = rng
    def exp(self, x):
        v = self.rng._fresh(float, "exp")
        if not v > 0: raise M_Ignore()
        return v
    def sqrt(self, x):
        v = self.rng._fresh(float, "sqrt")
        if not v >= 0: raise M_Ignore()
        return v
from crosshair.util import IgnoreAttempt as M_Ignore

def rrc(w: int, h: int) -> bool:
    """
    pre: 1 <= w and 1 <= h
    post: _
    """
    t = M.KDRandomResizedCrop(size=8)
    rng = SymRng()
    t.set_rng(rng)
    M.np = _NP(rng)
    M.range = lambda n: range(min(n, 2))
    i, j, ch, cw = t.get_params(Img(w, h))
    return 0 <= i and 0 <= j and ch >= 1 and cw >= 1 and i + ch <= h and j + cw <= w

def rc(w: int, h: int, th: int, tw: int) -> bool:
    """
    pre: 1 <= w and 1 <= h and 1 <= th and 1 <= tw
    post: _
    """
    t = C.KDRandomCrop(size=(th, tw))
    rng = SymRng()
    t.set_rng(rng)
    try:
        i, j, ch, cw = t.get_params(Img(w, h))
    except ValueError:
        return h < th or w < tw
    return 0 <= i and 0 <= j and ch == th and cw == tw and i + ch <= h and j + cw <= w
