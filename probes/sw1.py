from typing import Optional
from st1 import Base, KDSubset
from kappadata.wrappers.dataset_wrappers.subset_wrapper import SubsetWrapper

def sub_idx(n: int, s: Optional[int], e: Optional[int]) -> bool:
    """
    pre: 1 <= n <= 5
    pre: s is None or 0 <= s <= 6
    pre: e is None or 0 <= e <= 6
    pre: not (s is None and e is None)
    pre: (s or 0) <= min(n if e is None else e, n)
    post: _
    """
    w = SubsetWrapper(Base(n, "a"), start_index=s, end_index=e)
    lo = 0 if s is None else s
    hi = n if e is None else min(e, n)
    got = [w.getitem_x(i)[1] for i in range(len(w))]
    return got == list(range(lo, hi))
