import numpy as np
import kappadata.collators.kd_mix_collator as M
import objtorch
from symrng import SymRng
from crosshair.util import IgnoreAttempt

class Rng(SymRng):
    def beta(self, a, b, size=None):
        v = self._fresh(float, "beta")
        if not (0.0 <= v <= 1.0): raise IgnoreAttempt("assume")
        return v

def mixup_batch_roll(p00: float, p01: float, p10: float, p11: float, p20: float, p21: float) -> bool:
    """
    pre: all(-8.0 <= v <= 8.0 for v in (p00, p01, p10, p11, p20, p21))
    post: _
    """
    M.torch = objtorch
    c = M.KDMixCollator(mixup_alpha=0.8, mixup_p=1.0, apply_mode="batch", lamb_mode="batch", shuffle_mode="roll",
                        dataset_mode="x class", return_ctx=True)
    rng = Rng()
    c.set_rng(rng)
    B = 3
    x = np.empty((B, 1, 1, 2), dtype=object)
    vals = [[p00, p01], [p10, p11], [p20, p21]]
    for i in range(B):
        for k in range(2):
            x[i, 0, 0, k] = vals[i][k]
    y = np.zeros((B, 3), dtype=object)
    for i in range(B):
        y[i, i] = 1.0
    x0 = x.copy(); y0 = y.copy()
    ctx = {}
    out = c.collate((objtorch.T(x), objtorch.T(y)), "x class", ctx)
    xo, yo = out
    lam = ctx["lambda"].a.flat[0]
    ok = True
    for i in range(B):
        p = (i - 1) % B
        for k in range(2):
            ok = ok and xo.a[i, 0, 0, k] == lam * x0[i, 0, 0, k] + (1 - lam) * x0[p, 0, 0, k]
        rs = 0
        for k in range(3):
            ok = ok and yo.a[i, k] == lam * y0[i, k] + (1 - lam) * y0[p, k]
            rs = rs + yo.a[i, k]
        ok = ok and rs == 1
    return ok
