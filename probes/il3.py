from typing import Optional
from il1 import *
from il1 import _Seq

def check_cfg(n: int, b: int, drop_last: bool, epochs: int, m: int, ene: Optional[int], enu: Optional[int], ens: Optional[int]) -> bool:
    """
    pre: 1 <= n <= 5
    pre: 1 <= b <= n
    pre: 1 <= epochs <= 2
    pre: 1 <= m <= 2
    pre: ene is None or 1 <= ene <= 2
    pre: enu is None or 1 <= enu <= 3
    pre: ens is None or 1 <= ens <= 6
    pre: not (ene is None and enu is None and ens is None)
    post: _
    """
    cfg = InterleavedSamplerConfig(sampler=_Seq(m), every_n_epochs=ene, every_n_updates=enu, every_n_samples=ens)
    s = InterleavedSampler(main_sampler=_Seq(n), batch_size=b, drop_last=drop_last, epochs=epochs, configs=[cfg])
    got = list(s)
    # reference
    spe = n // b * b if drop_last else n
    exp = []
    sample = 0; update = 0; last = 0
    for e in range(epochs):
        for i in range(spe):
            sample += 1
            full = ((i + 1) % b == 0) or (i + 1 == spe)
            exp.append((full, i))
            if full:
                update += 1
                due = False
                if ene is not None and i + 1 == spe and (e + 1) % ene == 0:
                    due = True
                if enu is not None and update % enu == 0:
                    due = True
                if ens is not None and last // ens < sample // ens:
                    due = True
                last = sample
                if due:
                    for j in range(m):
                        exp.append(((j + 1) % b == 0 or j + 1 == m, n + j))
    return got == exp
