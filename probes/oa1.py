import numpy as np

def mix(a: float, b: float, c: float, d: float, lam: float, top: int, bot: int) -> bool:
    """
    pre: 0.0 <= lam <= 1.0
    pre: all(-100.0 <= v <= 100.0 for v in (a, b, c, d))
    pre: 0 <= top <= bot <= 2
    post: _
    """
    x = np.empty((2, 2), dtype=object)
    x[0, 0] = a; x[0, 1] = b; x[1, 0] = c; x[1, 1] = d
    x2 = np.roll(x, 1, axis=0)
    out = x * lam + x2 * (1.0 - lam)
    ok = out[0, 0] == a * lam + c * (1.0 - lam) and out[1, 1] == d * lam + b * (1.0 - lam)
    y = x.copy()
    y[top:bot, :] = x2[top:bot, :]
    for r in range(2):
        exp = x2[r, 0] if top <= r < bot else x[r, 0]
        ok = ok and y[r, 0] == exp
    return ok
