from kappadata.transforms.kd_gaussian_blur_pil import KDGaussianBlurPIL
def blur_mono(lb: float, ub: float, f1: float, f2: float) -> bool:
    """
    pre: 0.0 < lb <= ub <= 10.0
    pre: 0.0 <= f1 <= f2 <= 1.0
    post: _
    """
    t = KDGaussianBlurPIL(sigma=(0.1, 2.0))
    t.sigma_lb = lb
    t.sigma_ub = t.og_sigma_ub = ub
    t.scale_strength(f2)
    t.scale_strength(f1)
    u1 = t.sigma_ub
    t.scale_strength(f2)
    u2 = t.sigma_ub
    t.scale_strength(1.0)
    u3 = t.sigma_ub
    t.scale_strength(0.0)
    return lb <= u1 <= u2 <= ub and u3 == ub and t.sigma_ub == lb
