from typing import Optional
from il1 import *
from il1 import _Seq

def step_epoch(n: int, b: int, drop_last: bool, E: int, U: int, S: int, m: int, ene: Optional[int], enu: Optional[int], ens: Optional[int]) -> bool:
    """
    pre: 1 <= n <= 5
    pre: 1 <= b <= n
    pre: 0 <= E and 0 <= U and 0 <= S
    pre: 1 <= m <= 2
    pre: ene is None or 1 <= ene <= 3
    pre: enu is None or 1 <= enu <= 3
    pre: ens is None or 1 <= ens <= 7
    pre: (ene is not None) + (enu is not None) + (ens is not None) == 1
    post: _
    """
    cfg = InterleavedSamplerConfig(sampler=_Seq(m), every_n_epochs=ene, every_n_updates=enu, every_n_samples=ens)
    main = _Seq(n)
    s = InterleavedSampler(main_sampler=main, batch_size=b, drop_last=drop_last, epochs=E + 1, configs=[cfg])
    s.start_epoch, s.start_update, s.start_sample = E, U, S
    got = []
    it = iter(s)
    first = True
    for item in it:
        got.append(item)
    spe = n // b * b if drop_last else n
    exp = []
    sample = S; update = U; last = S
    for i in range(spe):
        sample += 1
        full = ((i + 1) % b == 0) or (i + 1 == spe)
        exp.append((full, i))
        if full:
            update += 1
            due = False
            if ene is not None and i + 1 == spe and (E + 1) % ene == 0:
                due = True
            if enu is not None and update % enu == 0:
                due = True
            if ens is not None and last // ens < sample // ens:
                due = True
            last = sample
            if due:
                for j in range(m):
                    exp.append(((j + 1) % b == 0 or j + 1 == m, n + j))
    return got == exp and main.epochs == [E]
