from kappadata.transforms.kd_color_jitter import KDColorJitter
from kappadata.transforms.kd_gaussian_blur_pil import KDGaussianBlurPIL

def cj_one(b: float) -> bool:
    """
    pre: 0.0 <= b <= 1.0
    post: _
    """
    t = KDColorJitter(brightness=0.4, contrast=0.4, saturation=0.2, hue=0.1)
    # make constructed ranges symbolic, per ColorJitter's contract [max(0,1-b), 1+b]
    t.og_brightness_lb = t.brightness_lb = max(0.0, 1.0 - b)
    t.og_brightness_ub = t.brightness_ub = 1.0 + b
    t.scale_strength(1.0)
    return t.brightness_lb == t.og_brightness_lb and t.brightness_ub == t.og_brightness_ub

def blur_mono(lb: float, ub: float, f1: float, f2: float) -> bool:
    """
    pre: 0.0 < lb <= ub <= 10.0
    pre: 0.0 <= f1 <= f2 <= 1.0
    post: _
    """
    t = KDGaussianBlurPIL(sigma=(0.1, 2.0))
    t.sigma_lb = lb
    t.sigma_ub = t.og_sigma_ub = ub
    t.scale_strength(f2)
    t.scale_strength(f1)
    u1 = t.sigma_ub
    t.scale_strength(f2)
    u2 = t.sigma_ub
    t.scale_strength(1.0)
    u3 = t.sigma_ub
    t.scale_strength(0.0)
    return lb <= u1 <= u2 <= ub and u3 == ub and t.sigma_ub == lb
