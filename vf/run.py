"""Orchestrator: ./check <ID> quick|thorough   |   ./check <ID> --replay <path>

exit 0  property held for all values within the stated bounds (known findings printed)
exit 1  VIOLATION property=<id> replay=<path>   (counterexample from the solver, reproduced concretely)
exit 2  inconclusive (a condition was not confirmed / timed out / its reachability twin was vacuous)
exit 3  harness error (a solver counterexample did not reproduce concretely, or a self-test failed)
"""
import fnmatch
import importlib
import json
import os
import random
import sys
import time
from pathlib import Path

ROOT = Path(__file__).resolve().parent.parent
sys.path.insert(0, str(ROOT))
os.environ.setdefault("KAPPADATA_VERIF", "1")
if len(sys.argv) > 1:
    os.environ["VF_RUN_ID"] = f"{sys.argv[1].upper()}_{os.getpid()}"

from vf import common  # noqa: E402
from vf.engine import Cond, Result, run_conditions  # noqa: E402

KNOWN = ROOT / "known_findings.json"


def log(*a):
    print(*a, flush=True)


def load_known(pid):
    if not KNOWN.exists():
        return []
    data = json.loads(KNOWN.read_text())
    return [e for e in data.get("findings", []) if e.get("property") == pid]


def concrete_run(H, body, cfg, args):
    """Re-execute a harness body in plain CPython (no tracing): returns (ok, reasons, error)."""
    common.EXPLAIN.clear()
    try:
        ok = getattr(H, body)(cfg, *list(args.values()))
    except Exception as e:  # the body let an exception escape: harness defect, not a verdict
        return None, list(common.EXPLAIN), f"{type(e).__name__}: {e}"
    return bool(ok), list(common.EXPLAIN), None


def replay_file(pid, path):
    rec = json.loads(Path(path).read_text())
    H = importlib.import_module(rec["harness"])
    ok, why, err = concrete_run(H, rec["body"], _untuple(rec["cfg"]), rec["args"])
    if err:
        log(f"replay raised inside the harness: {err}")
        return 3
    if ok:
        log(f"replay of {path}: property holds on the current tree for this input")
        return 0
    log(f"replay of {path}: property fails: {why}")
    log(f"VIOLATION property={pid} replay={path}")
    return 1


def _untuple(x):
    # cfg values are tuples/dicts of primitives; JSON turns tuples into lists
    if isinstance(x, list):
        return tuple(_untuple(v) for v in x)
    if isinstance(x, dict):
        return {k: _untuple(v) for k, v in x.items()}
    return x


def main(argv):
    pid = argv[1].upper()
    H = importlib.import_module(f"harness.{pid.lower()}")
    if argv[2] == "--replay":
        return replay_file(pid, argv[3])
    tier = argv[2]
    assert tier in ("quick", "thorough")
    seed = int(os.environ.get("VERIF_SEED", "0") or 0)
    nproc = int(os.environ.get("VERIF_NPROC", "16"))
    t0 = time.time()
    rng = random.Random(seed)
    evid_path = ROOT / "evidence" / f"{pid}.json"
    evid_path.parent.mkdir(exist_ok=True)
    if evid_path.exists():
        evid_path.unlink()

    # ---- shim / translator self-tests (differential, concrete) ----
    selftest = {"run": 0, "failed": []}
    if hasattr(H, "selftest"):
        n, failed = H.selftest(random.Random(seed))
        selftest = {"run": n, "failed": failed}
        log(f"[{pid}] self-test of stubs/oracles: {n} concrete comparisons, {len(failed)} failed")
        if failed:
            for f in failed[:5]:
                log("   self-test failure:", f)

    conds = list(H.conditions(tier, rng))
    only = os.environ.get("VERIF_ONLY")  # development aid: restrict to matching condition names
    if only:
        conds = [c for c in conds if fnmatch.fnmatchcase(c.name, only)]
    names = [c.name for c in conds]
    assert len(set(names)) == len(names), "duplicate condition names"
    byname = {c.name: c for c in conds}

    # ---- known findings: replay the recorded witness, exclude exactly its class ----
    known_lines = []
    known_entries = load_known(pid)
    for e in known_entries:
        if e.get("status") != "known":
            continue
        w = e["witness"]
        # the harness excludes exactly the recorded class inside its body; the witness itself is
        # replayed with that exclusion switched off
        if hasattr(H, "IGNORE_KNOWN"):
            H.IGNORE_KNOWN = True
        try:
            ok, why, err = concrete_run(H, w["body"], _untuple(w["cfg"]), w["args"])
        finally:
            if hasattr(H, "IGNORE_KNOWN"):
                H.IGNORE_KNOWN = False
        if err is None and ok is False:
            line = f"KNOWN-FINDING: property={pid} {e['what']}"
            known_lines.append(line)
            log(line)
        else:
            log(f"[{pid}] note: recorded finding '{e['id']}' no longer reproduces (ok={ok}, err={err})")
        for c in conds:
            if e.get("exclude_pre") and fnmatch.fnmatchcase(c.name, e.get("cond", "*")):
                c.pre = list(c.pre) + [e["exclude_pre"]]

    jobs = [(c, "main") for c in conds] + [(c, "twin") for c in conds if c.twin]
    log(f"[{pid}] tier={tier} seed={seed}: {len(conds)} conditions (+{len(jobs) - len(conds)} reachability twins) on {nproc} workers")
    results = run_conditions(jobs, nproc=nproc, log=log)
    mains = {r.name: r for r in results if r.kind == "main"}
    twins = {r.name: r for r in results if r.kind == "twin"}

    extra = []
    if hasattr(H, "extra_checks"):
        extra = H.extra_checks(tier, log)  # e.g. E3 lemmas: list of dicts(name,status,detail,...)

    violations = []
    inconclusive = []
    harness_errors = list(selftest["failed"])
    replayed = 0
    (ROOT / "replays" / pid).mkdir(parents=True, exist_ok=True)
    for name, r in mains.items():
        c = byname[name]
        if r.status == "refuted":
            if r.args is None:
                inconclusive.append(f"{name}: counterexample could not be parsed: {r.message[:200]}")
                continue
            ok, why, err = concrete_run(H, c.body, c.cfg, r.args)
            replayed += 1
            if err is not None:
                harness_errors.append(f"{name}: replay raised in harness: {err} args={r.args}")
            elif ok:
                harness_errors.append(f"{name}: solver counterexample did not reproduce concretely args={r.args} msg={r.message[:200]}")
            else:
                path = ROOT / "replays" / pid / f"{len(violations)}.json"
                path.write_text(json.dumps({
                    "property": pid, "cond": name, "harness": c.harness, "body": c.body, "cfg": c.cfg,
                    "args": r.args, "explain": why, "solver_message": r.message,
                }, indent=1, default=repr))
                violations.append({"cond": name, "args": r.args, "why": why, "replay": str(path)})
        elif r.status == "inconclusive":
            inconclusive.append(f"{name}: {r.detail[:300]}")
    twins_refuted = 0
    for name, r in twins.items():
        if r.status == "refuted":
            twins_refuted += 1
        elif mains[name].status == "confirmed":
            # main confirmed but no witness that the assertion is reachable with the property true
            inconclusive.append(f"{name}: reachability twin {r.status} {r.detail[:200]} (vacuity not excluded)")
    for x in extra:
        if x["status"] == "violated":
            violations.append({"cond": x["name"], "args": x.get("args"), "why": [x.get("detail", "")], "replay": x.get("replay", "")})
        elif x["status"] != "holds":
            inconclusive.append(f"{x['name']}: {x['status']} {x.get('detail', '')}")

    wall = time.time() - t0
    confirmed = [r for r in mains.values() if r.status == "confirmed"]
    nontrivial = [r for r in confirmed if r.paths > 1]
    groups = {}
    for c in conds:
        g = groups.setdefault(c.group or c.body, {"conditions": 0, "confirmed": 0, "paths": 0, "cpu_s": 0.0, "bounds": c.bounds})
        r = mains[c.name]
        g["conditions"] += 1
        g["confirmed"] += r.status == "confirmed"
        g["paths"] += r.paths
        g["cpu_s"] = round(g["cpu_s"] + r.cpu_s, 2)
    samples = []
    for c in conds[:: max(1, len(conds) // 6)][:8]:
        r = mains[c.name]
        samples.append({"condition": c.name, "body": f"{c.harness}.{c.body}", "cfg": repr(c.cfg), "symbolic": [f"{n}: {t}" for n, t in c.params],
                        "pre": list(c.pre), "verdict": r.status, "paths": r.paths, "cpu_s": r.cpu_s,
                        "twin_witness": (twins[c.name].args if c.name in twins else None)})
    for x in extra[:3]:
        samples.append(x)
    encoded = {s: common.source_hash(s) for s in getattr(H, "ENCODED", [])}
    evidence = {
        "property_id": pid,
        "tier": tier,
        "seed": seed,
        "level": "other",
        "wall_s": round(wall, 2),
        "violations": len(violations),
        "assumptions": list(getattr(H, "ASSUMPTIONS", [])) + [
            "CrossHair 0.0.110 models of Python builtins and z3 are trusted; a condition counts only when CrossHair reports the path tree exhausted",
        ],
        "coverage": {
            "explanation": (
                "Bounded symbolic execution of the real repository functions (CrossHair on z3): each condition is a harness function "
                "whose arguments are all nondeterminism of one enumerated configuration; 'confirmed' means the SMT solver decided every "
                "path within the stated bounds; a counterexample is replayed concretely before it is reported. Nothing is claimed outside the bounds."
            ),
            "evaluations": len(mains) + len(extra),
            "distinct_nontrivial": len(nontrivial) + sum(1 for x in extra if x["status"] == "holds"),
            "rule": "one evaluation = one CrossHair condition (enumerated configuration x symbolic arguments) or one SMT lemma; "
                    "distinct by condition name; non-trivial = confirmed and the solver had to decide more than one path",
            "obligations": len(mains) + len(extra),
            "discharged": len(confirmed) + sum(1 for x in extra if x["status"] == "holds"),
            "paths_decided": sum(r.paths for r in mains.values()),
            "reachability_twins_run": len(twins),
            "reachability_twins_with_witness": twins_refuted,
            "counterexamples_replayed": replayed,
            "exhaustive": False,
            "samples": samples,
            "groups": groups,
            "functions_encoded": encoded,
            "stubs": list(getattr(H, "STUBS", [])),
            "bounds": getattr(H, "BOUNDS", {}).get(tier, ""),
            "outside_claim": list(getattr(H, "OUTSIDE", [])),
            "solver_cpu_s": round(sum(r.cpu_s for r in results), 2),
            "selftest_comparisons": selftest["run"],
            "extra_lemmas": extra,
            "known_findings": known_lines,
            "inconclusive": inconclusive[:50],
            "harness_errors": harness_errors[:50],
            "violations_detail": violations[:20],
            "checker_cmd": f"./check {pid} {tier}",
        },
    }
    evid_path.write_text(json.dumps(evidence, indent=1, default=repr))
    import shutil
    from vf.engine import WORK
    if not os.environ.get("VERIF_KEEP_WORK"):
        shutil.rmtree(WORK, ignore_errors=True)
    log(f"[{pid}] {len(confirmed)}/{len(mains)} conditions confirmed over all paths, {twins_refuted}/{len(twins)} twins witnessed, "
        f"{len(violations)} violations, {len(inconclusive)} inconclusive, {len(harness_errors)} harness errors, wall {wall:.1f}s")
    if os.environ.get("VERIF_TIMES"):
        for r in sorted(results, key=lambda r: -r.cpu_s)[:int(os.environ["VERIF_TIMES"])]:
            log(f"   {r.cpu_s:8.1f}s paths={r.paths:5d} {r.kind} {r.status} {r.name}")
    if violations:
        for v in violations:
            log(f"  counterexample {v['cond']} args={v['args']} why={v['why']}")
            log(f"VIOLATION property={pid} replay={v['replay']}")
        return 1
    if harness_errors:
        for h in harness_errors[:10]:
            log("  HARNESS-ERROR", h)
        return 3
    if inconclusive:
        for i in inconclusive[:10]:
            log("  INCONCLUSIVE", i)
        return 2
    return 0


if __name__ == "__main__":
    sys.exit(main(sys.argv))
