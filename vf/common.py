"""Helpers shared by the harness bodies."""
import contextlib
import hashlib
import importlib
import inspect

import os
_DEBUG = bool(os.environ.get('VERIF_DEBUG'))
EXPLAIN = []  # filled during concrete replay: why the body returned False


def fail(reason: str) -> bool:
    """Record why the property does not hold on this path and return False.

    `reason` must be a concrete string (never format symbolic values into it: CrossHair would
    realise them); under symbolic execution the list is simply ignored."""
    EXPLAIN.append(reason)
    if _DEBUG:
        import sys, traceback
        print("FAIL:", reason, file=sys.stderr)
        traceback.print_exc(file=sys.stderr)
    return False


@contextlib.contextmanager
def patched(mod, **names):
    """Temporarily assign names in the module under test (E2 environment stubs)."""
    missing = object()
    saved = {k: mod.__dict__.get(k, missing) for k in names}
    try:
        for k, v in names.items():
            setattr(mod, k, v)
        yield
    finally:
        for k, v in saved.items():
            if v is missing:
                try:
                    delattr(mod, k)
                except AttributeError:
                    pass
            else:
                setattr(mod, k, v)


def resolve(spec: str):
    modname, _, qual = spec.partition(":")
    obj = importlib.import_module(modname)
    for part in qual.split("."):
        if part:
            obj = getattr(obj, part)
    return obj


def source_hash(spec: str):
    """sha256 (first 16 hex) of the *current* source of a repository function: evidence that the
    encoding was regenerated from the working tree."""
    try:
        obj = resolve(spec)
        obj = getattr(obj, "__func__", obj)
        if isinstance(obj, property):
            obj = obj.fget
        src = inspect.getsource(obj)
        return hashlib.sha256(src.encode()).hexdigest()[:16]
    except Exception as e:  # a function the harness names has disappeared
        return "unavailable:" + type(e).__name__


class CappedRange:
    """Stand-in for `range` in a module under test whose retry loops have independent iterations:
    `range(n)` with a single int argument n > cap yields only `cap` iterations (stated cut)."""

    def __init__(self, cap):
        self.cap = cap

    def __call__(self, *a):
        if len(a) == 1 and isinstance(a[0], int) and a[0] > self.cap:
            return range(self.cap)
        return range(*a)


def realize_all(x):
    """deep-realize symbolic values (no-op outside CrossHair)"""
    try:
        from crosshair.core import deep_realize
    except Exception:  # pragma: no cover
        return x
    return deep_realize(x)


def sym_floor(v):
    # __floor__ of CrossHair's real-valued float is symbolic (ToInt); the builtin int()
    # would realise a symbolic real
    # (CrossHair patches math.floor to realise its argument, so call the dunder directly)
    return v.__floor__()


def sym_ceil(v):
    f = sym_floor(v)
    return f if f == v else f + 1


class Realizing:
    """Proxy for a C-level library module (numpy / torch) installed in the module under test: the
    Python-level arithmetic in front of a library call stays symbolic, at the call the arguments are
    realised (CrossHair then enumerates the remaining values, which is exhaustive for bounded
    integer ranges). ceil/floor are computed symbolically so that a real-valued operand is never
    realised (that would never exhaust)."""

    def __init__(self, mod, symbolic=("ceil", "floor")):
        self._mod = mod
        self._symbolic = symbolic

    def __getattr__(self, name):
        f = getattr(self._mod, name)
        if name == "ceil" and "ceil" in self._symbolic:
            return sym_ceil
        if name == "floor" and "floor" in self._symbolic:
            return sym_floor
        if isinstance(f, type) or not callable(f):
            import types
            if isinstance(f, types.ModuleType):
                return Realizing(f, self._symbolic)
            return f

        def call(*a, **k):
            # arrays / tensors are passed by reference (in-place library calls such as
            # rng.shuffle(indices) must act on the caller's object); everything else is realised
            keep = lambda x: type(x).__module__.split(".")[0] in ("numpy", "torch")
            a2 = [x if keep(x) else realize_all(x) for x in a]
            k2 = {n: (x if keep(x) else realize_all(x)) for n, x in k.items()}
            return f(*a2, **k2)

        return call


def sym_round(x, ndigits=None):
    """round-half-to-even written with int() so that a symbolic real is never realised"""
    if ndigits is not None:
        return round(x, ndigits)
    if isinstance(x, int):
        return x
    neg = x < 0
    a = -x if neg else x
    c = sym_floor(a)
    frac = a - c
    if frac > 0.5:
        r = c + 1
    elif frac < 0.5:
        r = c
    else:
        r = c if c % 2 == 0 else c + 1
    return -r if neg else r
