"""Engine E1: run CrossHair (symbolic execution on z3) over generated conditions, in a worker pool.

A *condition* is one Python function whose arguments are all the nondeterminism of one
configuration of a harness; its `pre:` lines are the documented domain and `post: _` is the
property. The worker calls CrossHair's own analysis (crosshair.core.analyze_function /
ConditionCheckable.analyze) - the same code path as `crosshair check --report_all` - but keeps
the path counter so the evidence can say how many paths the solver had to decide.

Verdicts:  confirmed      - CrossHair exhausted the path tree, every path satisfied the post
           refuted        - a counterexample (goes to concrete replay before it is believed)
           inconclusive   - not confirmed / precondition unmet / timeout / tool crash
"""
import ast
import importlib.util
import multiprocessing as mp
import os
import queue
import sys
import time
import traceback
from dataclasses import dataclass, field, asdict
from pathlib import Path
from typing import Any, Dict, List, Optional, Sequence, Tuple

ROOT = Path(__file__).resolve().parent.parent
WORK = ROOT / ".work" / os.environ.get("VF_RUN_ID", "dev")  # one scratch dir per check invocation


@dataclass
class Cond:
    name: str  # unique within the property, human readable
    harness: str  # harness module name (harness.<x>)
    body: str  # function in the harness module: body(cfg, *symbolic args) -> bool
    cfg: Any  # concrete configuration (must round-trip through repr)
    params: Sequence[Tuple[str, str]]  # symbolic parameters: (name, type annotation source)
    pre: Sequence[str] = ()  # precondition lines over the parameters
    timeout: float = 60.0  # CrossHair per_condition_timeout (CPU seconds)
    floats: bool = False  # pin float to the real-valued model
    group: str = ""  # family label used in evidence
    cost: float = 1.0  # relative cost estimate (longest first scheduling)
    twin: bool = True  # run the reachability twin
    bounds: str = ""  # human readable bounds of this condition

    def key(self):
        return self.name


@dataclass
class Result:
    name: str
    kind: str  # "main" | "twin"
    status: str  # confirmed | refuted | inconclusive
    detail: str = ""
    message: str = ""
    args: Optional[Dict[str, Any]] = None
    paths: int = 0
    confirmed_paths: int = 0
    cpu_s: float = 0.0
    wall_s: float = 0.0


def gen_source(cond: Cond, kind: str) -> str:
    sig = ", ".join(f"{n}: {t}" for n, t in cond.params)
    call = ", ".join(n for n, _ in cond.params)
    post = "_" if kind == "main" else "not _"
    lines = [
        "import sys",
        f"sys.path.insert(0, {str(ROOT)!r})",
        "from typing import *",
        f"import {cond.harness} as _HARNESS",
        f"CFG = {cond.cfg!r}",
        "",
        f"def cond({sig}) -> bool:",
        '    """',
    ]
    for n, t in cond.params:
        if t == "float":  # finite reals only (excludes nan / inf, which the real-valued model cannot represent)
            lines.append(f"    pre: -1e12 <= {n} <= 1e12")
    for p in cond.pre:
        lines.append(f"    pre: {p}")
    lines.append(f"    post: {post}")
    lines.append('    """')
    lines.append(f"    return _HARNESS.{cond.body}(CFG{', ' if call else ''}{call})")
    return "\n".join(lines) + "\n"


def parse_call_args(message: str, params: Sequence[Tuple[str, str]]) -> Optional[Dict[str, Any]]:
    """Extract the counterexample arguments from 'false when calling cond(a, b=..)'."""
    idx = message.find("cond(")
    if idx < 0:
        return None
    txt = message[idx:]
    # cut at the matching parenthesis
    depth = 0
    end = None
    for k, ch in enumerate(txt):
        if ch == "(":
            depth += 1
        elif ch == ")":
            depth -= 1
            if depth == 0:
                end = k + 1
                break
    if end is None:
        return None
    try:
        node = ast.parse(txt[:end], mode="eval").body
    except SyntaxError:
        return None
    env = {"float": float, "nan": float("nan"), "inf": float("inf")}

    def ev(n):
        return eval(compile(ast.Expression(n), "<cx>", "eval"), {"__builtins__": {}}, env)

    out = {}
    names = [n for n, _ in params]
    try:
        for k, a in enumerate(node.args):
            out[names[k]] = ev(a)
        for kw in node.keywords:
            out[kw.arg] = ev(kw.value)
    except Exception:
        return None
    if set(out) != set(names):
        return None
    return {n: out[n] for n in names}  # parameter order: bodies are called positionally


def _install_realfloats():
    """pin float to CrossHair's real-valued model (its default mixes a real and an IEEE model at
    random and then never reports exhaustion). NOTE: CrossHair's float factory still forks every
    float *argument* into finite / nan / +inf / -inf before the preconditions are evaluated
    (4^k leaves for k float arguments, all but one failing the finiteness precondition), so
    conditions keep k <= 6. Replacing the factory was tried and makes CrossHair report
    'not confirmed' on exhausted trees; it is therefore left alone."""
    from crosshair.libimpl import builtinslib as b

    b._PYTYPE_TO_WRAPPER_TYPE[float] = ((b.RealBasedSymbolicFloat, 1.0),)


def _restore_floats(saved):
    from crosshair.libimpl import builtinslib as b

    b._PYTYPE_TO_WRAPPER_TYPE[float] = saved


def _analyze_one(cond: Cond, kind: str, wid: int) -> Result:
    import collections
    from crosshair.core import analyze_function
    from crosshair.options import AnalysisOptionSet
    from crosshair.statespace import MessageType
    from crosshair.libimpl import builtinslib as b

    t0 = time.time()
    c0 = time.process_time()
    WORK.mkdir(exist_ok=True, parents=True)
    d = WORK / f"w{wid}"
    d.mkdir(exist_ok=True)
    modname = f"_vfcond_{wid}_{int(time.time() * 1e6) % 10 ** 12}"
    path = d / f"{modname}.py"
    path.write_text(gen_source(cond, kind))
    saved = b._PYTYPE_TO_WRAPPER_TYPE[float]
    res = Result(name=cond.name, kind=kind, status="inconclusive")
    try:
        spec = importlib.util.spec_from_file_location(modname, path)
        mod = importlib.util.module_from_spec(spec)
        sys.modules[modname] = mod
        spec.loader.exec_module(mod)
        if cond.floats:
            _install_realfloats()
        # the twin only needs one witness; give it the same budget
        opts = AnalysisOptionSet(per_condition_timeout=cond.timeout, report_all=True)
        checkables = analyze_function(mod.cond, opts)
        if not checkables:
            res.detail = "no-checkable"
            return res
        (chk,) = checkables
        if not hasattr(chk, "options"):
            msgs = list(chk.analyze())
            res.detail = "syntax:" + "; ".join(m.message for m in msgs)
            return res
        chk.options.stats = collections.Counter()
        msgs = list(chk.analyze())
        res.paths = chk.options.stats.get("num_paths", 0)
        states = [m.state for m in msgs]
        if not msgs:
            res.detail = "no-message"
        elif all(s == MessageType.CONFIRMED for s in states):
            res.status = "confirmed"
        elif any(s in (MessageType.POST_FAIL, MessageType.EXEC_ERR, MessageType.POST_ERR) for s in states):
            m = [m for m in msgs if m.state in (MessageType.POST_FAIL, MessageType.EXEC_ERR, MessageType.POST_ERR)][0]
            res.status = "refuted"
            res.message = m.message
            res.detail = m.state.value
            res.args = parse_call_args(m.message, cond.params)
        else:
            res.detail = ";".join(f"{m.state.value}:{m.message}" for m in msgs)
    except BaseException as e:  # tool crash -> inconclusive
        res.status = "inconclusive"
        res.detail = "tool-crash:" + "".join(traceback.format_exception_only(type(e), e)).strip()[:500]
    finally:
        _restore_floats(saved)
        sys.modules.pop(modname, None)
        try:
            path.unlink()
        except OSError:
            pass
        res.cpu_s = round(time.process_time() - c0, 3)
        res.wall_s = round(time.time() - t0, 3)
    return res


def _worker(wid: int, tasks: "mp.Queue", results: "mp.Queue", preload: Sequence[str]):
    sys.path.insert(0, str(ROOT))
    os.environ.setdefault("KAPPADATA_VERIF", "1")
    sys.setrecursionlimit(10000)
    try:
        import crosshair.core_and_libs  # noqa: F401  registers the library models
        for m in preload:
            importlib.import_module(m)
    except BaseException as e:
        results.put(("fatal", wid, "".join(traceback.format_exception(type(e), e, e.__traceback__))))
        return
    results.put(("ready", wid, None))
    while True:
        item = tasks.get()
        if item is None:
            return
        tid, cond, kind = item
        results.put(("start", wid, tid))
        r = _analyze_one(cond, kind, wid)
        results.put(("done", wid, (tid, r)))


def run_conditions(jobs: List[Tuple[Cond, str]], nproc: int = 16, log=print) -> List[Result]:
    """Run (cond, kind) jobs on a pool of CrossHair workers with an outer wall-clock watchdog."""
    if not jobs:
        return []
    ctx = mp.get_context("fork")
    nproc = max(1, min(nproc, len(jobs)))
    order = sorted(range(len(jobs)), key=lambda k: -jobs[k][0].cost * jobs[k][0].timeout)
    pending = list(order)
    results_q = ctx.Queue()
    preload = sorted({c.harness for c, _ in jobs})
    workers: Dict[int, Any] = {}
    task_qs: Dict[int, Any] = {}
    current: Dict[int, Tuple[int, float]] = {}
    out: Dict[int, Result] = {}
    next_wid = [0]

    def spawn():
        wid = next_wid[0]
        next_wid[0] += 1
        q = ctx.Queue()
        p = ctx.Process(target=_worker, args=(wid, q, results_q, preload), daemon=True)
        p.start()
        workers[wid] = p
        task_qs[wid] = q
        return wid

    def feed(wid):
        if pending:
            tid = pending.pop(0)
            task_qs[wid].put((tid, jobs[tid][0], jobs[tid][1]))
            current[wid] = (tid, time.time())
        else:
            task_qs[wid].put(None)
            current.pop(wid, None)

    WORK.mkdir(exist_ok=True, parents=True)
    open(WORK / "progress.log", "w").close()
    for _ in range(nproc):
        spawn()
    done = 0
    fatal = None
    t_last = time.time()
    while done < len(jobs):
        try:
            typ, wid, payload = results_q.get(timeout=1.0)
        except queue.Empty:
            typ = None
        now = time.time()
        if typ == "ready":
            feed(wid)
        elif typ == "fatal":
            fatal = payload
            break
        elif typ == "start":
            tid = payload
            current[wid] = (tid, now)
        elif typ == "done":
            tid, r = payload
            with open(WORK / "progress.log", "a") as f:
                f.write(f"{r.cpu_s:8.1f}s paths={r.paths:5d} {r.kind} {r.status} {r.name} {r.detail[:80]}\n")
            if tid not in out:
                out[tid] = r
                done += 1
            feed(wid)
            if now - t_last > 20:
                log(f"  ... {done}/{len(jobs)} conditions decided")
                t_last = now
        # watchdog: a worker stuck far beyond its CPU budget is killed -> inconclusive
        for wid, (tid, t0) in list(current.items()):
            limit = jobs[tid][0].timeout * 2 + 60
            if now - t0 > limit and tid not in out:
                workers[wid].terminate()
                workers[wid].join(5)
                current.pop(wid, None)
                c, k = jobs[tid]
                out[tid] = Result(name=c.name, kind=k, status="inconclusive", detail="watchdog-timeout", wall_s=now - t0)
                done += 1
                nw = spawn()
        # a worker that died without reporting
        for wid, p in list(workers.items()):
            if not p.is_alive() and wid in current:
                tid, t0 = current.pop(wid)
                if tid not in out:
                    c, k = jobs[tid]
                    out[tid] = Result(name=c.name, kind=k, status="inconclusive", detail=f"worker-died exit={p.exitcode}")
                    done += 1
                    spawn()
    for wid, p in workers.items():
        if p.is_alive():
            try:
                task_qs[wid].put(None)
            except Exception:
                pass
    for wid, p in workers.items():
        p.join(2)
        if p.is_alive():
            p.terminate()
    if fatal:
        raise RuntimeError("worker failed to start:\n" + fatal)
    return [out[k] for k in range(len(jobs))]
